---------------------------- MODULE MergeContract ---------------------------
(***************************************************************************)
(* Contract of the three-way merger, as named clauses over one observed    *)
(* merge (base, local, remote, strategy) -> (decisions D, merged).         *)
(* Each clause is a direct reading of a sentence of C03..C07, C09..C11.    *)
(***************************************************************************)
EXTENDS MergeFormat, NbPaths

(***************************************************************************)
(* C09                                                                      *)
(***************************************************************************)
AppliesTo(base, D, merged) ==
  LET r == ApplyDecisions(base, D) IN r.ok /\ Eq(r.v, merged)

AllSideIs(base, D, side, target) ==
  LET r == ApplyDecisions(base, AllSide(D, side)) IN r.ok /\ Eq(r.v, target)

AllDecisionSchemaOK(D) == \A k \in 1..Len(D) : DecisionSchemaOK(D[k])
AllDecisionSchemaOKFor(D, acts) == \A k \in 1..Len(D) : DecisionSchemaOKFor(D[k], acts)
AllDecisionPlainJSON(D) == \A k \in 1..Len(D) : DecisionPlainJSON(D[k])

(***************************************************************************)
(* C11 on embedded diffs: each local/remote/custom diff is well-formed     *)
(* relative to the sub-document of base its decision's path addresses.     *)
(***************************************************************************)
EmbeddedWF(base, dec) ==
  LET sp == SplitStringPath(base, dec.common_path) IN
  /\ sp.ok
  /\ LET sub == Get(base, sp.path)
         OK(d) == Len(d) = 0 \/ (IsContainer(sub) /\ WellFormed(sub, PushPath(sp.line, d)))
     IN OK(dec.local_diff) /\ OK(dec.remote_diff) /\ OK(dec.custom_diff)
AllEmbeddedWF(base, D) == \A k \in 1..Len(D) : EmbeddedWF(base, D[k])

(***************************************************************************)
(* C05                                                                      *)
(***************************************************************************)
\* both sides insert new items at the same position of the same sequence
RECURSIVE SamePositionInsert(_, _)
SamePositionInsert(ld, rd) ==
  \E i \in 1..Len(ld), j \in 1..Len(rd) :
     /\ ld[i].kt = rd[j].kt
     /\ ld[i].key = rd[j].key
     /\ \/ (ld[i].op = "addrange" /\ rd[j].op = "addrange")
        \/ (ld[i].op = "patch" /\ rd[j].op = "patch" /\ SamePositionInsert(ld[i].diff, rd[j].diff))

(***************************************************************************)
(* C07: source lines                                                       *)
(***************************************************************************)
Terminators == PyLineSeps
StripEnd(line) ==
  LET RECURSIVE Go(_)
      Go(n) == IF n > 0 /\ line[n] \in Terminators THEN Go(n - 1) ELSE n
  IN SubSeq(line, 1, Go(Len(line)))

IsBlank(line) == \A k \in 1..Len(line) : line[k] \in {32, 9} \cup Terminators

CellsOf(nb) == IF nb.t = "o" /\ "cells" \in DOMAIN nb.m /\ nb.m["cells"].t = "l" THEN nb.m["cells"].e ELSE <<>>
SourceOf(cell) == IF cell.t = "o" /\ "source" \in DOMAIN cell.m /\ cell.m["source"].t = "s"
                  THEN cell.m["source"].c ELSE <<>>
LinesOfText(c) == LET ls == SplitLines(c, PyLineSeps) IN {StripEnd(ls[k]) : k \in 1..Len(ls)}
SourceLines(nb) == UNION {LinesOfText(SourceOf(CellsOf(nb)[k])) : k \in 1..Len(CellsOf(nb))}

StartsWithCp(line, pre) == Len(line) >= Len(pre) /\ SubSeq(line, 1, Len(pre)) = pre
Rep(cp, n) == [k \in 1..n |-> cp]
IsMarker(line) ==
  \/ StartsWithCp(line, Rep(60, 7))        \* <<<<<<<
  \/ StartsWithCp(line, Rep(61, 7))        \* =======
  \/ StartsWithCp(line, Rep(62, 7))        \* >>>>>>>
  \/ StartsWithCp(line, Rep(124, 7))       \* |||||||
  \/ StartsWithCp(line, <<60, 115, 112, 97, 110, 32, 115, 116, 121, 108, 101, 61, 34, 99, 111, 108, 111, 114,
                          58, 114, 101, 100, 34, 62, 60, 98, 62>>)   \* <span style="color:red"><b>

\* Known-finding classifier: a merged line that is the last line of a base source WITHOUT line ending, glued
\* to a line one side appended after it (the change that adds the line ending was conflicted away).
UnterminatedLastLines(nb) ==
  {StripEnd(SplitLines(SourceOf(CellsOf(nb)[k]), PyLineSeps)[Len(SplitLines(SourceOf(CellsOf(nb)[k]), PyLineSeps))]) :
     k \in {q \in 1..Len(CellsOf(nb)) :
              LET c == SourceOf(CellsOf(nb)[q]) IN Len(c) > 0 /\ c[Len(c)] \notin Terminators}}
\* ln = u1 \o ... \o un \o t : every ui an unterminated last line of one of the three notebooks, t a source line of
\* the inputs - provided the base has a source whose last line is unterminated (the root of the finding: the change
\* that gives that line its end is conflicted while a line appended behind it is applied; what gets glued is the
\* base's last line or, when the conflict is resolved to a side, that side's version of it)
RECURSIVE GluedChain(_, _, _, _, _)
GluedChain(ln, ubase, uall, src, usedBase) ==
  \E pre \in uall :
     /\ Len(pre) > 0 /\ Len(ln) > Len(pre) /\ SubSeq(ln, 1, Len(pre)) = pre
     /\ LET rest == SubSeq(ln, Len(pre) + 1, Len(ln))
            ub == usedBase \/ pre \in ubase
        IN (ub /\ rest \in src) \/ GluedChain(rest, ubase, uall, src, ub)
IsGlued(ln, base, local, remote, src) ==
  GluedChain(ln, UnterminatedLastLines(base),
             UnterminatedLastLines(base) \cup UnterminatedLastLines(local) \cup UnterminatedLastLines(remote), src,
             UnterminatedLastLines(base) # {})
LinesProvenanceModGlue(base, local, remote, merged) ==
  LET src == SourceLines(base) \cup SourceLines(local) \cup SourceLines(remote)
  IN \A ln \in SourceLines(merged) : IsBlank(ln) \/ ln \in src \/ IsMarker(ln) \/ IsGlued(ln, base, local, remote, src)

LinesSurvive(base, local, remote, merged) ==
  LET bl == SourceLines(base) ml == SourceLines(merged)
  IN \A ln \in (SourceLines(local) \cup SourceLines(remote)) \ bl : IsBlank(ln) \/ ln \in ml
\* the lines that were dropped (for reporting)
LinesProvenance(base, local, remote, merged) ==
  LET src == SourceLines(base) \cup SourceLines(local) \cup SourceLines(remote)
  IN \A ln \in SourceLines(merged) : IsBlank(ln) \/ ln \in src \/ IsMarker(ln)
=============================================================================
