----------------------------- MODULE FlattenDiff -----------------------------
(***************************************************************************)
(* Transcription of diff_utils.flatten_list_of_string_diff (with _overlaps *)
(* and _combine_ops): the step between nbdime's LINE based diff of a       *)
(* multi-line string and the CHARACTER based diff that patch_string        *)
(* applies and that the web front end receives (C01, C02, C15).            *)
(*                                                                         *)
(* A text is a sequence of lines, a line a sequence of code points.  A     *)
(* line based diff is a sequence of entries over 0-based line numbers:     *)
(*   addrange (lines inserted before line key), removerange (len lines     *)
(*   removed), patch (a character diff inside line key: addrange /         *)
(*   removerange over 0-based columns).                                    *)
(* One state per (text, line diff) of a bounded universe: before every     *)
(* line nothing / one / two lines may be inserted, the line is kept,       *)
(* removed (alone or with its successor) or patched in one of six ways     *)
(* (first column, last column, the column after the line end - which is    *)
(* the first column of the NEXT line, where entries of two lines meet),    *)
(* and lines may be appended.  TLC checks                                  *)
(*   NoRaise        the function's sanity check never fires                *)
(*   SameResult     applying the flattened diff to the joined text gives   *)
(*                  the join of the text patched line by line              *)
(*   Ordered        keys never decrease; every range lies inside the text  *)
(*   OnePerKind     no two entries of the same kind at one key             *)
(* and with EMIT prints every case; the harness recomputes each with       *)
(* nbdime's function and with nbdime.patch on the joined string.           *)
(***************************************************************************)
EXTENDS Naturals, Sequences, FiniteSets, TLC, Json

CONSTANTS MaxLines, EMIT

VARIABLES text, ldiff, phase
vars == <<text, ldiff, phase>>

L1 == <<97, 10>>          \* "a\n"
L2 == <<98, 99, 10>>      \* "bc\n"
LD == <<100>>             \* "d" (a last line without line end)
X1 == <<120, 10>>         \* "x\n"
X2 == <<121, 122, 10>>    \* "yz\n"
Plus == <<43>>            \* "+"

RECURSIVE SeqsUpTo(_, _)
SeqsUpTo(S, n) == IF n = 0 THEN {<<>>}
                  ELSE LET P == SeqsUpTo(S, n - 1)
                       IN P \cup {Append(s, x) : s \in {q \in P : Len(q) = n - 1}, x \in S}
Texts == LET full == SeqsUpTo({L1, L2}, MaxLines)
         IN full \cup {[t EXCEPT ![Len(t)] = LD] : t \in {u \in full : Len(u) > 0}}

RECURSIVE Flat(_)
Flat(ls) == IF Len(ls) = 0 THEN <<>> ELSE ls[1] \o Flat(Tail(ls))

\* character entries
CAdd(k, v) == [op |-> "addrange", key |-> k, val |-> v, len |-> 0]
CRem(k, n) == [op |-> "removerange", key |-> k, val |-> <<>>, len |-> n]
\* line entries
LAdd(k, ls) == [op |-> "addrange", key |-> k, lines |-> ls, len |-> 0, sub |-> <<>>]
LRem(k, n)  == [op |-> "removerange", key |-> k, lines |-> <<>>, len |-> n, sub |-> <<>>]
LPatch(k, s) == [op |-> "patch", key |-> k, lines |-> <<>>, len |-> 0, sub |-> s]

Pres == {<<>>, <<X1>>, <<X1, X2>>}
Acts == {"keep", "remove", "remove2", "p1", "p2", "p3", "p4", "p5", "p6"}
SubDiff(act, m) ==
  CASE act = "p1" -> <<CAdd(0, Plus)>>
    [] act = "p2" -> <<CRem(0, 1)>>
    [] act = "p3" -> <<CAdd(0, Plus), CRem(0, 1)>>
    [] act = "p4" -> <<CAdd(m, Plus)>>
    [] act = "p5" -> <<CRem(m - 1, 1)>>
    [] act = "p6" -> <<CRem(0, 1), CAdd(m, Plus)>>

\* the line diff of a choice: ch[i] = <<pre, act>> for line i (1-based), tail = lines appended at the end
RECURSIVE Build(_, _, _, _)
Build(t, ch, tail, i) ==
  IF i > Len(t) THEN (IF Len(tail) = 0 THEN <<>> ELSE <<LAdd(Len(t), tail)>>)
  ELSE LET pre == ch[i][1]
           act == ch[i][2]
           ins == IF Len(pre) = 0 THEN <<>> ELSE <<LAdd(i - 1, pre)>>
       IN CASE act = "keep"    -> ins \o Build(t, ch, tail, i + 1)
            [] act = "remove"  -> ins \o <<LRem(i - 1, 1)>> \o Build(t, ch, tail, i + 1)
            [] act = "remove2" -> ins \o <<LRem(i - 1, 2)>> \o Build(t, ch, tail, i + 2)
            [] OTHER           -> ins \o <<LPatch(i - 1, SubDiff(act, Len(t[i])))>> \o Build(t, ch, tail, i + 1)
\* (a line after "remove2" is skipped whatever was chosen for it; "remove2" needs a successor)
ChoiceOK(t, ch) == \A i \in 1..Len(t) : ch[i][2] = "remove2" => i < Len(t)

(***************************************************************************)
(* flatten_list_of_string_diff                                             *)
(***************************************************************************)
RECURSIVE Offset(_, _)
Offset(t, k) == IF k = 0 THEN 0 ELSE Offset(t, k - 1) + Len(t[k])      \* first column of 0-based line k

Shift(sub, off) == [j \in 1..Len(sub) |-> [sub[j] EXCEPT !.key = @ + off]]
CharOps(t, e) ==
  LET off == Offset(t, e.key) IN
  CASE e.op = "patch"       -> Shift(e.sub, off)
    [] e.op = "addrange"    -> <<CAdd(off, Flat(e.lines))>>
    [] e.op = "removerange" -> <<CRem(off, Offset(t, e.key + e.len) - off)>>
RECURSIVE CharBased(_, _)
CharBased(t, d) == IF Len(d) = 0 THEN <<>> ELSE CharOps(t, d[1]) \o CharBased(t, Tail(d))

\* _overlaps: "yes", "no" or "raise" (the sanity check)
Overlaps(acc, new) ==
  IF Len(acc) = 0 THEN "no"
  ELSE LET ex == acc[Len(acc)] IN
       IF ex.op = new.op
       THEN IF ex.key = new.key THEN "yes"
            ELSE IF ex.op = "removerange" /\ ex.key + ex.len >= new.key
                 THEN (IF ex.key + ex.len # new.key THEN "raise" ELSE "yes")
                 ELSE "no"
       ELSE "no"       \* (the add / addrange arm needs a single-item "add", which string diffs do not have)
CombineOps(ex, new) == IF new.op = "addrange" THEN [ex EXCEPT !.val = @ \o new.val]
                       ELSE CRem(ex.key, ex.len + new.len)
RaiseMark == <<[op |-> "raise", key |-> 0, val |-> <<>>, len |-> 0]>>
Raised(o) == Len(o) = 1 /\ o[1].op = "raise"
RECURSIVE Combine(_, _)
Combine(acc, rest) ==
  IF Len(rest) = 0 THEN acc
  ELSE LET o == Overlaps(acc, rest[1]) IN
       IF o = "raise" THEN RaiseMark
       ELSE IF o = "yes" THEN Combine([acc EXCEPT ![Len(acc)] = CombineOps(@, rest[1])], Tail(rest))
       ELSE Combine(Append(acc, rest[1]), Tail(rest))
\* list.sort(key=key) is stable
RECURSIVE InsertStable(_, _)
InsertStable(s, x) == IF Len(s) = 0 THEN <<x>>
                      ELSE IF s[Len(s)].key <= x.key THEN Append(s, x)
                      ELSE Append(InsertStable(SubSeq(s, 1, Len(s) - 1), x), s[Len(s)])
RECURSIVE SortStable(_)
SortStable(s) == IF Len(s) = 0 THEN <<>> ELSE InsertStable(SortStable(SubSeq(s, 1, Len(s) - 1)), s[Len(s)])
Flatten(t, d) == LET c == Combine(<<>>, CharBased(t, d)) IN IF Raised(c) THEN c ELSE SortStable(c)

(***************************************************************************)
(* applying a diff to a sequence (patching.patch_list / patch_string)      *)
(***************************************************************************)
RECURSIVE ApplyC(_, _, _, _)
ApplyC(s, ops, take, acc) ==
  IF Len(ops) = 0 THEN acc \o SubSeq(s, take + 1, Len(s))
  ELSE LET e == ops[1]
           pre == SubSeq(s, take + 1, e.key)
       IN IF e.op = "addrange" THEN ApplyC(s, Tail(ops), e.key, acc \o pre \o e.val)
          ELSE ApplyC(s, Tail(ops), e.key + e.len, acc \o pre)
RECURSIVE ApplyL(_, _, _, _)
ApplyL(t, d, take, acc) ==
  IF Len(d) = 0 THEN acc \o SubSeq(t, take + 1, Len(t))
  ELSE LET e == d[1]
           pre == SubSeq(t, take + 1, e.key)
       IN CASE e.op = "addrange"    -> ApplyL(t, Tail(d), e.key, acc \o pre \o e.lines)
            [] e.op = "removerange" -> ApplyL(t, Tail(d), e.key + e.len, acc \o pre)
            [] e.op = "patch"       -> ApplyL(t, Tail(d), e.key + 1, acc \o pre \o <<ApplyC(t[e.key + 1], e.sub, 0, <<>>)>>)

Init == text \in Texts /\ ldiff = <<>> /\ phase = "text"
PickDiff == /\ phase = "text"
            /\ \E ch \in [1..Len(text) -> Pres \X Acts], tail \in Pres :
                 ChoiceOK(text, ch) /\ ldiff' = Build(text, ch, tail, 1)
            /\ phase' = "case" /\ UNCHANGED text
Next == PickDiff
Spec == Init /\ [][Next]_vars
Ready == phase = "case"

Out == Flatten(text, ldiff)
Expected == Flat(ApplyL(text, ldiff, 0, <<>>))

NoRaise == Ready => ~Raised(Out)
SameResult == (Ready /\ ~Raised(Out)) => ApplyC(Flat(text), Out, 0, <<>>) = Expected
Ordered == (Ready /\ ~Raised(Out)) =>
  /\ \A j \in 1..(Len(Out) - 1) : Out[j].key <= Out[j + 1].key
  /\ \A j \in 1..Len(Out) : Out[j].key + Out[j].len <= Len(Flat(text))
  /\ \A j \in 1..(Len(Out) - 1) : Out[j].op = "removerange" => Out[j].key + Out[j].len <= Out[j + 1].key
OnePerKind == (Ready /\ ~Raised(Out)) =>
  \A i, j \in 1..Len(Out) : (i # j /\ Out[i].key = Out[j].key) => Out[i].op # Out[j].op

Emit == (EMIT /\ Ready) =>
  PrintT("FLATTEN " \o ToJson([t |-> text, d |-> ldiff, out |-> Out, res |-> Expected]))
=============================================================================
