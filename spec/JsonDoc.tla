------------------------------ MODULE JsonDoc ------------------------------
(***************************************************************************)
(* Tagged JSON universe shared by every nbdime specification module.      *)
(*                                                                         *)
(* A JSON value is a record whose field t names its kind:                  *)
(*   [t |-> "o", m |-> function from key strings to values]   object       *)
(*   [t |-> "l", e |-> sequence of values]                    array        *)
(*   [t |-> "s", c |-> sequence of Unicode code points]       string       *)
(*   [t |-> "i", v |-> canonical decimal text]                integer      *)
(*   [t |-> "f", v |-> canonical (repr) text]                 float        *)
(*   [t |-> "b", v |-> "true" / "false"]                      boolean      *)
(*   [t |-> "n"]                                              null         *)
(*   [t |-> "x", ...]   NOT a JSON value (tuple, NaN, object with non-     *)
(*                      string key...): produced by the encoder so that   *)
(*                      the spec can say "this is not plain JSON".         *)
(*                                                                         *)
(* Numbers are kept as text: TLC integers are 32 bit, and the properties  *)
(* (C02) distinguish 1, 1.0 and true, which only differ in their JSON text.*)
(* Equality is tag-first so TLC never compares values of different kinds. *)
(***************************************************************************)
EXTENDS Naturals, Sequences, FiniteSets, TLC

Obj(m)  == [t |-> "o", m |-> m]
List(e) == [t |-> "l", e |-> e]
Str(c)  == [t |-> "s", c |-> c]
Int(v)  == [t |-> "i", v |-> v]
Flt(v)  == [t |-> "f", v |-> v]
Bool(v) == [t |-> "b", v |-> v]
Null    == [t |-> "n"]

IsContainer(x) == x.t \in {"o", "l", "s"}

RECURSIVE Eq(_, _)
Eq(x, y) ==
  IF x.t # y.t THEN FALSE
  ELSE CASE x.t = "o" -> /\ DOMAIN x.m = DOMAIN y.m
                         /\ \A k \in DOMAIN x.m : Eq(x.m[k], y.m[k])
         [] x.t = "l" -> /\ Len(x.e) = Len(y.e)
                         /\ \A i \in 1..Len(x.e) : Eq(x.e[i], y.e[i])
         [] x.t = "s" -> x.c = y.c
         [] x.t = "n" -> TRUE
         [] x.t = "x" -> FALSE
         [] OTHER     -> x.v = y.v

\* No non-JSON leaf anywhere (C09/C11 "plain JSON", "survives a JSON round trip")
RECURSIVE PlainJSON(_)
PlainJSON(x) ==
  CASE x.t = "o" -> \A k \in DOMAIN x.m : PlainJSON(x.m[k])
    [] x.t = "l" -> \A i \in 1..Len(x.e) : PlainJSON(x.e[i])
    [] x.t = "x" -> FALSE
    [] OTHER     -> TRUE

\* Python's "==" on JSON leaves identifies true/1/1.0 and false/0/0.0.
\* NumClass gives the class text used by known-finding classifiers only.
NumClass(x) ==
  IF x.t \notin {"i", "f", "b"} THEN x
  ELSE IF x.v \in {"1", "1.0", "true"} THEN [t |-> "num", v |-> "1"]
  ELSE IF x.v \in {"0", "0.0", "-0.0", "false"} THEN [t |-> "num", v |-> "0"]
  ELSE [t |-> "num", v |-> x.v]

Max(a, b) == IF a >= b THEN a ELSE b
Min(a, b) == IF a <= b THEN a ELSE b

SubSeqFrom(s, i) == IF i > Len(s) THEN <<>> ELSE SubSeq(s, i, Len(s))

RECURSIVE FlatSeq(_)
FlatSeq(ss) == IF ss = <<>> THEN <<>> ELSE Head(ss) \o FlatSeq(Tail(ss))

(***************************************************************************)
(* Line splitting, parameterised by the set of single-code-point line      *)
(* separators; CR LF counts as one separator when both 13 and 10 are in    *)
(* the set.  Semantics of Python's str.splitlines(keepends=True).          *)
(***************************************************************************)
PyLineSeps == {10, 13, 11, 12, 28, 29, 30, 133, 8232, 8233}
JsLineSeps == {10, 13}

SplitLines(c, seps) ==
  LET n == Len(c)
      RECURSIVE Go(_, _, _)
      \* i: scan position, s: start of current line, acc: lines so far
      Go(i, s, acc) ==
        IF i > n THEN (IF s <= n THEN Append(acc, SubSeq(c, s, n)) ELSE acc)
        ELSE IF c[i] \in seps
             THEN LET j == IF c[i] = 13 /\ i < n /\ c[i+1] = 10 /\ 10 \in seps
                           THEN i + 1 ELSE i
                  IN Go(j + 1, j + 1, Append(acc, SubSeq(c, s, j)))
             ELSE Go(i + 1, s, acc)
  IN Go(1, 1, <<>>)

(***************************************************************************)
(* Paths.  A path is a sequence of steps [k |-> "s", s |-> key] or         *)
(* [k |-> "i", i |-> index (0-based)].                                     *)
(***************************************************************************)
RECURSIVE Get(_, _)
Get(x, p) ==
  IF p = <<>> THEN x
  ELSE IF Head(p).k = "s" THEN Get(x.m[Head(p).s], Tail(p))
       ELSE Get(x.e[Head(p).i + 1], Tail(p))

RECURSIVE Set(_, _, _)
Set(x, p, v) ==
  IF p = <<>> THEN v
  ELSE IF Head(p).k = "s"
       THEN Obj([x.m EXCEPT ![Head(p).s] = Set(x.m[Head(p).s], Tail(p), v)])
       ELSE List([x.e EXCEPT ![Head(p).i + 1] = Set(x.e[Head(p).i + 1], Tail(p), v)])

\* Can p be resolved in x (every step exists and has the right kind)?
RECURSIVE Resolvable(_, _)
Resolvable(x, p) ==
  IF p = <<>> THEN TRUE
  ELSE IF Head(p).k = "s"
       THEN x.t = "o" /\ Head(p).s \in DOMAIN x.m /\ Resolvable(x.m[Head(p).s], Tail(p))
       ELSE x.t = "l" /\ Head(p).i < Len(x.e) /\ Resolvable(x.e[Head(p).i + 1], Tail(p))

IsPrefix(p, q) == Len(p) <= Len(q) /\ SubSeq(q, 1, Len(p)) = p
IsProperPrefix(p, q) == Len(p) < Len(q) /\ SubSeq(q, 1, Len(p)) = p
=============================================================================
