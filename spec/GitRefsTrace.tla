---------------------------- MODULE GitRefsTrace -----------------------------
(***************************************************************************)
(* Trace specification for `changed_notebooks` (C17).  One NDJSON line per *)
(* iteration of the generator over one (repository, ref pair, cwd, filter):*)
(*   report   what git itself reports as changed between the two sides for *)
(*            that filter: sequence of [apath, bpath, ac, bc] with content *)
(*            ids (0 = absent on that side)                                *)
(*   yielded  the pairs the implementation yielded: [ac, bc] content ids   *)
(*            (0 = the null file, -1 = not readable as a notebook)         *)
(*   cwd0     the caller's working directory before; cwds: after each      *)
(*            yield and at exhaustion                                      *)
(*   raised   present if the iteration raised                              *)
(* The contract: exactly the notebook entries of git's report are examined,*)
(* each paired with its content on either side (null file for additions /  *)
(* deletions), non-notebooks are skipped, the working directory is the     *)
(* same afterwards as before.                                              *)
(***************************************************************************)
EXTENDS Naturals, Sequences, FiniteSets, TLC, Json, IOUtils

Trace == ndJsonDeserialize(IOEnv.TRACE_FILE)
VARIABLE i

Has(ev, f) == f \in DOMAIN ev

EndsWith(s, suf) == Len(s) >= Len(suf) /\ SubSeq(s, Len(s) - Len(suf) + 1, Len(s)) = suf
Ipynb == <<46, 105, 112, 121, 110, 98>>            \* ".ipynb" as code points
IsNotebookEntry(e) ==
  \* nbdime looks at both paths of an entry: each present side must be a notebook file
  /\ (Len(e.apath) > 0 => EndsWith(e.apath, Ipynb))
  /\ (Len(e.bpath) > 0 => EndsWith(e.bpath, Ipynb))

Expected(report) ==
  LET idxs == {k \in 1..Len(report) : IsNotebookEntry(report[k])} IN
  [k \in idxs |-> <<report[k].ac, report[k].bc>>]

\* multiset equality between yielded pairs and expected pairs
Count(seq, x) == Cardinality({k \in 1..Len(seq) : seq[k] = x})
CountF(f, x) == Cardinality({k \in DOMAIN f : f[k] = x})
SameMultiset(yielded, exp) ==
  /\ Len(yielded) = Cardinality(DOMAIN exp)
  /\ \A k \in 1..Len(yielded) : Count(yielded, yielded[k]) = CountF(exp, yielded[k])

Clauses(ev) ==
  IF Has(ev, "raised") THEN << <<"Completes", FALSE>> >>
  ELSE <<
    <<"Completes", TRUE>>,
    <<"ExaminesExactlyReported", SameMultiset(ev.yielded, Expected(ev.report))>>,
    <<"CwdPreservedAtEnd", ev.cwds[Len(ev.cwds)] = ev.cwd0>>,
    <<"CwdPreservedDuring", \A k \in 1..Len(ev.cwds) : ev.cwds[k] = ev.cwd0>>,
    \* the command run from a sub-directory with a relative --out: the file appears in the directory it was run from
    <<"OutputWhereRun", Has(ev, "outwhere") => ev.outwhere = ev.cwd0>>
  >>

Report(ev) ==
  LET cs == Clauses(ev) IN
  \A k \in 1..Len(cs) : IF cs[k][2] THEN TRUE ELSE PrintT(<<"FAIL", ev.tid, cs[k][1]>>)

Init == i = 1
Next == /\ i <= Len(Trace)
        /\ Report(Trace[i]) = TRUE
        /\ i' = i + 1
Spec == Init /\ [][Next]_i
Accepted == TLCGet("stats").diameter = Len(Trace) + 1
=============================================================================
