------------------------------ MODULE NbPaths -------------------------------
(***************************************************************************)
(* Notebook path vocabulary: the six categories of notebook content that   *)
(* nbdime's ignore options name (docs: --sources/--outputs/--attachments/  *)
(* --metadata/--id/--details), as starred paths.                           *)
(*   sources      /cells/*/source                                           *)
(*   outputs      /cells/*/outputs  (everything below)                      *)
(*   attachments  /cells/*/attachments                                      *)
(*   metadata     /metadata, /cells/*/metadata, /cells/*/outputs/*/metadata *)
(*   id           /cells/*/id                                               *)
(*   details      /cells/*/execution_count,                                 *)
(*                /cells/*/outputs/*/execution_count                        *)
(* A starred path is a sequence of strings, list indices written "*".      *)
(***************************************************************************)
EXTENDS JsonDoc

Cats == {"sources", "outputs", "attachments", "metadata", "id", "details"}

StartsWith(p, q) == Len(q) <= Len(p) /\ SubSeq(p, 1, Len(q)) = q

\* the set of categories a starred path lies in
PathCats(p) ==
  (IF StartsWith(p, <<"cells", "*", "source">>) THEN {"sources"} ELSE {}) \cup
  (IF StartsWith(p, <<"cells", "*", "outputs">>) THEN {"outputs"} ELSE {}) \cup
  (IF StartsWith(p, <<"cells", "*", "attachments">>) THEN {"attachments"} ELSE {}) \cup
  (IF \/ StartsWith(p, <<"metadata">>)
      \/ StartsWith(p, <<"cells", "*", "metadata">>)
      \/ StartsWith(p, <<"cells", "*", "outputs", "*", "metadata">>) THEN {"metadata"} ELSE {}) \cup
  (IF StartsWith(p, <<"cells", "*", "id">>) THEN {"id"} ELSE {}) \cup
  (IF \/ StartsWith(p, <<"cells", "*", "execution_count">>)
      \/ StartsWith(p, <<"cells", "*", "outputs", "*", "execution_count">>) THEN {"details"} ELSE {})

IgnoredPath(p, ign) == PathCats(p) \cap ign # {}

MapSeq(s, F(_)) == [j \in 1..Len(s) |-> F(s[j])]

\* remove keys / overwrite keys of an object value, total on non-objects
DropKey(x, k) == IF x.t = "o" /\ k \in DOMAIN x.m
                 THEN Obj([q \in DOMAIN x.m \ {k} |-> x.m[q]]) ELSE x
PutIfHas(x, k, v) == IF x.t = "o" /\ k \in DOMAIN x.m
                     THEN Obj([x.m EXCEPT ![k] = v]) ELSE x
MapIfHas(x, k, F(_)) == IF x.t = "o" /\ k \in DOMAIN x.m
                        THEN Obj([x.m EXCEPT ![k] = F(x.m[k])]) ELSE x

EmptyObj == Obj([q \in {} |-> Null])

MaskOutput(o, ign) ==
  LET o1 == IF "metadata" \in ign THEN PutIfHas(o, "metadata", EmptyObj) ELSE o
      o2 == IF "details" \in ign THEN PutIfHas(o1, "execution_count", Null) ELSE o1
  IN o2

MaskCell(c, ign) ==
  LET c1 == IF "sources" \in ign THEN PutIfHas(c, "source", Str(<<>>)) ELSE c
      c2 == IF "outputs" \in ign THEN PutIfHas(c1, "outputs", List(<<>>))
            ELSE MapIfHas(c1, "outputs",
                          LAMBDA os : IF os.t = "l"
                                      THEN List(MapSeq(os.e, LAMBDA o : MaskOutput(o, ign))) ELSE os)
      c3 == IF "attachments" \in ign THEN DropKey(c2, "attachments") ELSE c2
      c4 == IF "metadata" \in ign THEN PutIfHas(c3, "metadata", EmptyObj) ELSE c3
      c5 == IF "id" \in ign THEN DropKey(c4, "id") ELSE c4
      c6 == IF "details" \in ign THEN PutIfHas(c5, "execution_count", Null) ELSE c5
  IN c6

\* a notebook with every ignored category blanked out
Mask(nb, ign) ==
  IF ign = {} THEN nb
  ELSE LET n1 == IF "metadata" \in ign THEN PutIfHas(nb, "metadata", EmptyObj) ELSE nb
       IN MapIfHas(n1, "cells",
                   LAMBDA cs : IF cs.t = "l"
                               THEN List(MapSeq(cs.e, LAMBDA c : MaskCell(c, ign))) ELSE cs)
=============================================================================
