---------------------------- MODULE DecisionModel ----------------------------
(***************************************************************************)
(* Design-level model of the merge-DECISION format over a bounded          *)
(* universe: the counterpart of DiffModel for decision lists.              *)
(*                                                                         *)
(* A merge result is shipped as a list of decisions; each holds a path and *)
(* slices of the two sides' diffs, and the applier (Python on the server,  *)
(* TypeScript in the browser) regroups the slices of one path, combines    *)
(* them into one diff and patches the sub-document.  The state machine     *)
(* picks a sub-document `sub`, ANY canonical well-formed group diff `g` of *)
(* it (within a weight bound) and then ANY way - of a set of styles - of   *)
(* cutting g into decisions:                                               *)
(*    L / R / alt    every entry its own decision, taken from the local /  *)
(*                   remote / alternating side                             *)
(*    E              both sides hold the entry, action "either"            *)
(*    C              the entry is the custom diff of a conflicted decision *)
(*    one            one decision holding the whole diff                   *)
(*    ltr / rtl      one decision, first half local, second half remote,   *)
(*                   action local_then_remote (and mirrored)               *)
(*    push           a patch entry on item k becomes a decision ON THE     *)
(*                   PATH of item k (for strings: the path of a line,      *)
(*                   which the applier must split off again)               *)
(*    pushsplit      ... cut into two decisions on that path               *)
(*    rmact          a removal of one item becomes action "remove"         *)
(* in forward or reverse order within one path, optionally with a          *)
(* conflicted decision left at "base" (no effect) or a "clear_all"         *)
(* decision (overrides everything on that path).  For objects every key    *)
(* also takes the actions clear / remove / take_max / base.                *)
(*                                                                         *)
(* TLC checks on every case:                                               *)
(*   GenWF           the group diff is well-formed for sub                 *)
(*   SchemaAll       every decision satisfies the published schema         *)
(*   Ordered         decisions inside a sub-document precede those on an   *)
(*                   enclosing path; one path is contiguous                *)
(*   SplitInvariance ApplyDecisions(base, D) is defined and equals base    *)
(*                   with sub replaced by Patch(sub, g) - HOWEVER g was    *)
(*                   cut: the theorem behind "the decisions determine the  *)
(*                   merge" (C09).  It needs Canonical (one patch per key) *)
(*                   and InsertionsFirst (an insertion before item k comes *)
(*                   before a patch of item k) in the reference semantics. *)
(*   Untouched       the sibling of sub is unchanged                       *)
(* Every case (base, D, r) is emitted and replayed into nbdime's           *)
(* apply_decisions and the TypeScript applyDecisions (spec -> code).       *)
(***************************************************************************)
EXTENDS MergeFormat, DiffGen, Json

CONSTANTS Kind,     \* "strings" | "lists" | "objects"
          MaxW,     \* bound on the number of entries of the group diff (nested ones included)
          EMIT

VARIABLES sub, g, D, r, wrap, tag, phase
vars == <<sub, g, D, r, wrap, tag, phase>>

KStep == [k |-> "s", s |-> "k", i |-> 0]
IStep(j) == [k |-> "i", s |-> "", i |-> j]
SStep(q) == [k |-> "s", s |-> q, i |-> 0]
Root(x, w) == IF w THEN Obj([q \in {"k", "z"} |-> IF q = "k" THEN x ELSE Int("5")]) ELSE x
P(w) == IF w THEN <<KStep>> ELSE <<>>

Dec(path, action, conflict, l, rr, c) ==
  [common_path |-> path, conflict |-> conflict, conflict_ok |-> TRUE, action |-> action,
   local_diff |-> l, local_null |-> FALSE, remote_diff |-> rr, remote_null |-> FALSE,
   custom_diff |-> c, custom_null |-> (action # "custom"), similar |-> <<>>, similar_null |-> TRUE,
   extra |-> <<>>, path_ok |-> TRUE]

RECURSIVE Weight(_)
Weight(d) == LET RECURSIVE S(_)
                 S(j) == IF j = 0 THEN 0
                         ELSE S(j - 1) + 1 + (IF d[j].op = "patch" THEN Weight(d[j].diff) ELSE 0)
             IN S(Len(d))

RECURSIVE SeqsUpTo(_, _)
SeqsUpTo(S, n) == IF n = 0 THEN {<<>>}
                  ELSE LET Q == SeqsUpTo(S, n - 1)
                       IN Q \cup {Append(s, x) : s \in {q \in Q : Len(q) = n - 1}, x \in S}

(***************************************************************************)
(* Universes                                                               *)
(***************************************************************************)
TermLines == {<<97, 10>>, <<98, 10>>, <<10>>}
LastLines == TermLines \cup {<<97>>, <<98>>}
Texts == {<<>>} \cup LastLines \cup {t \o l : t \in TermLines, l \in LastLines}

ListItems == {Int("1"), List(<<Int("1")>>), Obj([q \in {"a"} |-> Int("1")])}
ObjVals == {Int("1"), Int("3"), List(<<Int("1")>>), Str(<<120, 10>>)}

SubU == CASE Kind = "strings" -> {Str(t) : t \in Texts}
          [] Kind = "lists"   -> {List(s) : s \in SeqsUpTo(ListItems, 2)}
          [] Kind = "objects" -> UNION {{Obj(m) : m \in [Ks -> ObjVals]} : Ks \in SUBSET {"a", "b"}}

(***************************************************************************)
(* Group diffs                                                             *)
(***************************************************************************)
AddI(k, v) == [op |-> "addrange", kt |-> "i", key |-> k, valuelist |-> v]
RmI(k, n) == [op |-> "removerange", kt |-> "i", key |-> k, length |-> n]

CharDiffs(chars) ==
  LET n == Len(chars) IN
  {BuildSeq(n, ins, fate, mg) :
      ins \in [0..n -> InsChoices({<<99>>}, Str)],
      fate \in [1..n -> {<<"keep">>, <<"rm">>}],
      mg \in BOOLEAN} \ {<<>>}

ItemDiffs(x) ==
  CASE x.t = "l" -> {<<AddI(0, List(<<Int("7")>>))>>, <<RmI(0, 1)>>, <<AddI(1, List(<<Int("7")>>))>>,
                     <<AddI(0, List(<<Int("7")>>)), RmI(0, 1)>>}
    [] x.t = "o" -> {<<[op |-> "replace", kt |-> "s", key |-> "a", value |-> Int("7")]>>,
                     <<[op |-> "remove", kt |-> "s", key |-> "a"]>>,
                     <<[op |-> "add", kt |-> "s", key |-> "b", value |-> Int("7")]>>,
                     <<[op |-> "add", kt |-> "s", key |-> "b", value |-> Int("7")],
                       [op |-> "replace", kt |-> "s", key |-> "a", value |-> Int("7")]>>}
    [] x.t = "s" -> {<<AddI(0, List(<<Str(<<110, 10>>)>>))>>, <<RmI(0, 1)>>,
                     <<[op |-> "patch", kt |-> "i", key |-> 0, diff |-> <<AddI(0, Str(<<99>>))>>]>>,
                     <<AddI(0, List(<<Str(<<110, 10>>)>>)),
                       [op |-> "patch", kt |-> "i", key |-> 0, diff |-> <<AddI(0, Str(<<99>>))>>]>>}
    [] OTHER -> {}

SeqDiffs(items, InsSet, WrapV(_), Sub(_)) ==
  LET n == Len(items)
      Fates(j) == {<<"keep">>, <<"rm">>} \cup {<<"patch", sd>> : sd \in Sub(items[j])}
      FateFns == IF n = 0 THEN {<<>>}
                 ELSE {f \in [1..n -> UNION {Fates(j) : j \in 1..n}] : \A j \in 1..n : f[j] \in Fates(j)}
  IN {d \in {BuildSeq(n, ins, fate, mg) :
               ins \in [0..n -> InsChoices(InsSet, WrapV)], fate \in FateFns, mg \in BOOLEAN} :
        Len(d) > 0 /\ Weight(d) <= MaxW}

GroupDiffs(x) ==
  CASE x.t = "s" -> SeqDiffs(SplitLines(x.c, LineSeps), {<<Str(<<110, 10>>)>>}, LAMBDA s : List(s),
                             LAMBDA ln : IF Len(ln) <= 2 THEN CharDiffs(ln) ELSE {})
    [] x.t = "l" -> SeqDiffs(x.e, {<<Int("7")>>}, List, ItemDiffs)
    [] OTHER -> {}

(***************************************************************************)
(* Cutting a sequence diff into decisions                                  *)
(***************************************************************************)
Styles == {"L", "R", "alt", "E", "C", "one", "ltr", "rtl", "push", "pushsplit", "rmact"}
Extras == {"none", "base", "clearfirst", "clearlast"}

Rev(s) == [j \in 1..Len(s) |-> s[Len(s) + 1 - j]]

\* decisions of entry e (number j of the diff) on path p under a style: [deep, flat]
EntryDecs(p, e, j, sty) ==
  LET One(side) == CASE side = "L" -> <<Dec(p, "local", FALSE, <<e>>, <<>>, <<>>)>>
                     [] side = "R" -> <<Dec(p, "remote", FALSE, <<>>, <<e>>, <<>>)>>
                     [] side = "E" -> <<Dec(p, "either", FALSE, <<e>>, <<e>>, <<>>)>>
                     [] side = "C" -> <<Dec(p, "custom", TRUE, <<>>, <<e>>, <<e>>)>>
      pp == Append(p, IStep(e.key))
      half == Len(e.diff) \div 2
  IN CASE sty \in {"L", "R", "E", "C"} -> [deep |-> <<>>, flat |-> One(sty)]
       [] sty = "alt" -> [deep |-> <<>>, flat |-> One(IF j % 2 = 1 THEN "L" ELSE "R")]
       [] sty = "push" /\ e.op = "patch" ->
            [deep |-> <<Dec(pp, "local", FALSE, e.diff, <<>>, <<>>)>>, flat |-> <<>>]
       [] sty = "pushsplit" /\ e.op = "patch" ->
            [deep |-> IF half = 0 THEN <<Dec(pp, "remote", FALSE, <<>>, e.diff, <<>>)>>
                      ELSE <<Dec(pp, "local", FALSE, SubSeq(e.diff, 1, half), <<>>, <<>>),
                             Dec(pp, "remote", TRUE, <<>>, SubSeq(e.diff, half + 1, Len(e.diff)), <<>>)>>,
             flat |-> <<>>]
       [] sty = "rmact" /\ e.op = "removerange" /\ e.length = 1 ->
            [deep |-> <<>>, flat |-> <<Dec(p, "remove", TRUE, <<>>, <<e>>, <<>>)>>]
       [] OTHER -> [deep |-> <<>>, flat |-> One("L")]

CutSeq(p, d, sty, rev, extra, clearable) ==
  LET n == Len(d)
      half == n \div 2
      whole == CASE sty = "one" -> <<Dec(p, "local", FALSE, d, <<>>, <<>>)>>
                 [] sty = "ltr" -> <<Dec(p, "local_then_remote", FALSE, SubSeq(d, 1, half), SubSeq(d, half + 1, n), <<>>)>>
                 [] sty = "rtl" -> <<Dec(p, "remote_then_local", FALSE, SubSeq(d, half + 1, n), SubSeq(d, 1, half), <<>>)>>
                 [] OTHER -> <<>>
      parts == [j \in 1..n |-> EntryDecs(p, d[j], j, sty)]
      RECURSIVE Cat(_, _)
      Cat(j, which) == IF j > n THEN <<>>
                       ELSE (IF which = "deep" THEN parts[j].deep ELSE parts[j].flat) \o Cat(j + 1, which)
      deep == IF sty \in {"one", "ltr", "rtl"} THEN <<>> ELSE Cat(1, "deep")
      flat0 == IF sty \in {"one", "ltr", "rtl"} THEN whole ELSE Cat(1, "flat")
      flat1 == IF rev THEN Rev(flat0) ELSE flat0
      noise == Dec(p, "base", TRUE, <<RmI(0, 1)>>, <<AddI(0, List(<<Int("9")>>))>>, <<>>)
      clr == Dec(p, "clear_all", TRUE, <<RmI(0, 1)>>, <<AddI(0, List(<<Int("9")>>))>>, <<>>)
      flat == CASE extra = "base" -> <<noise>> \o flat1
                [] extra = "clearfirst" /\ clearable -> <<clr>> \o flat1
                [] extra = "clearlast" /\ clearable -> Append(flat1, clr)
                [] OTHER -> flat1
  IN deep \o flat

(***************************************************************************)
(* Objects: a fate per key                                                 *)
(***************************************************************************)
RepO(k, v) == [op |-> "replace", kt |-> "s", key |-> k, value |-> v]
RemO(k) == [op |-> "remove", kt |-> "s", key |-> k]
AddO(k, v) == [op |-> "add", kt |-> "s", key |-> k, value |-> v]
PatO(k, sd) == [op |-> "patch", kt |-> "s", key |-> k, diff |-> sd]

\* fate: [dec |-> decisions on p (deep, flat), exp |-> expected entries]
KeyFates(p, m, k) ==
  LET none == [deep |-> <<>>, flat |-> <<>>, exp |-> <<>>]
      Plain(e) == {[deep |-> <<>>, flat |-> <<Dec(p, "local", FALSE, <<e>>, <<>>, <<>>)>>, exp |-> <<e>>],
                   [deep |-> <<>>, flat |-> <<Dec(p, "remote", FALSE, <<>>, <<e>>, <<>>)>>, exp |-> <<e>>],
                   [deep |-> <<>>, flat |-> <<Dec(p, "either", FALSE, <<e>>, <<e>>, <<>>)>>, exp |-> <<e>>],
                   [deep |-> <<>>, flat |-> <<Dec(p, "custom", TRUE, <<RepO(k, Int("8"))>>, <<RemO(k)>>, <<e>>)>>, exp |-> <<e>>]}
  IN IF k \notin DOMAIN m
     THEN {none} \cup Plain(AddO(k, Int("7"))) \cup
          {[deep |-> <<>>, flat |-> <<Dec(p, "base", TRUE, <<AddO(k, Int("7"))>>, <<AddO(k, Int("8"))>>, <<>>)>>, exp |-> <<>>],
           \* both sides add the key with different values and the conflict is cleared: the cleared value is added
           [deep |-> <<>>, flat |-> <<Dec(p, "clear", TRUE, <<AddO(k, Int("7"))>>, <<AddO(k, Int("8"))>>, <<>>)>>,
            exp |-> <<AddO(k, Null)>>],
           [deep |-> <<>>, flat |-> <<Dec(p, "clear", TRUE, <<AddO(k, List(<<Int("7")>>))>>, <<AddO(k, List(<<>>))>>, <<>>)>>,
            exp |-> <<AddO(k, List(<<>>))>>]}
     ELSE LET v == m[k]
              conf(a) == Dec(p, a, TRUE, <<RepO(k, Int("7"))>>, <<RemO(k)>>, <<>>)
          IN {none} \cup Plain(RemO(k)) \cup Plain(RepO(k, Int("7")))
             \cup {[deep |-> <<>>, flat |-> <<conf("base")>>, exp |-> <<>>],
                   [deep |-> <<>>, flat |-> <<conf("clear")>>, exp |-> <<RepO(k, Cleared(v))>>],
                   [deep |-> <<>>, flat |-> <<conf("remove")>>, exp |-> <<RemO(k)>>]}
             \cup (IF IsContainer(v)
                   THEN UNION {Plain(PatO(k, sd)) \cup
                               {[deep |-> <<Dec(Append(p, SStep(k)), "local", FALSE, sd, <<>>, <<>>)>>, flat |-> <<>>,
                                 exp |-> <<PatO(k, sd)>>]} : sd \in ItemDiffs(v)}
                   ELSE {})
             \cup (IF IsSmallNat(v)
                   THEN {[deep |-> <<>>,
                          flat |-> <<Dec(p, "take_max", FALSE, <<RepO(k, Int(x))>>, <<RepO(k, Int(y))>>, <<>>)>>,
                          exp |-> LET mx == Max(NatOf(v.v), Max(NatOf(x), NatOf(y))) IN
                                  IF mx = NatOf(v.v) THEN <<>> ELSE <<RepO(k, Int(ToString(mx)))>>]
                           : x \in {"2", "10"}, y \in {"2", "9"}}
                   ELSE {})

(***************************************************************************)
(* State machine                                                           *)
(***************************************************************************)
Init == /\ sub \in SubU
        /\ wrap \in (IF Kind = "objects" THEN BOOLEAN ELSE {TRUE})
        /\ g = <<>> /\ D = <<>> /\ r = Null /\ tag = <<>>
        /\ phase = "doc"

ChooseSeq ==
  /\ Kind \in {"strings", "lists"}
  /\ \E gg \in GroupDiffs(sub), sty \in Styles, rev \in BOOLEAN, extra \in (IF sub.t = "l" THEN Extras ELSE {"none", "base"}) :
        LET clearable == sub.t = "l"
            cleared == extra \in {"clearfirst", "clearlast"} /\ clearable
            \* pushed decisions of a LIST are groups of their own, applied before the clear_all: the result is
            \* empty either way; pushed decisions of a STRING belong to the group and are overridden
        IN /\ g' = gg
           /\ tag' = <<sty, IF rev THEN "rev" ELSE "fwd", extra>>
           /\ D' = CutSeq(P(wrap), gg, sty, rev, extra, clearable)
           /\ r' = Root(IF cleared THEN Cleared(sub) ELSE Patch(sub, gg), wrap)

ChooseObj ==
  /\ Kind = "objects"
  /\ \E fa \in KeyFates(P(wrap), sub.m, "a"), fb \in KeyFates(P(wrap), sub.m, "b"),
        rev \in BOOLEAN, extra \in {"none", "clearfirst", "clearlast"} :
        LET p == P(wrap)
            clr == Dec(p, "clear_all", TRUE, <<RemO("a")>>, <<RepO("a", Int("9"))>>, <<>>)
            flat0 == IF rev THEN fb.flat \o fa.flat ELSE fa.flat \o fb.flat
            flat == CASE extra = "clearfirst" -> <<clr>> \o flat0
                      [] extra = "clearlast" -> Append(flat0, clr)
                      [] OTHER -> flat0
            exp == fa.exp \o fb.exp
            \* pushed decisions (a path below sub) are applied before the group of sub itself; a clear_all then
            \* removes every key
            res == IF extra = "none" THEN Patch(sub, exp) ELSE Cleared(sub)
        IN /\ Len(fa.deep \o fb.deep \o flat) > 0
           /\ g' = exp
           /\ tag' = <<"keys", IF rev THEN "rev" ELSE "fwd", extra>>
           /\ D' = fa.deep \o fb.deep \o flat
           /\ r' = Root(res, wrap)

Next == /\ phase = "doc"
        /\ (ChooseSeq \/ ChooseObj)
        /\ phase' = "cut"
        /\ UNCHANGED <<sub, wrap>>
Spec == Init /\ [][Next]_vars

(***************************************************************************)
(* Invariants                                                              *)
(***************************************************************************)
Cut == phase = "cut"
base == Root(sub, wrap)

GenWF == Cut => WellFormed(sub, g)
SchemaAll == Cut => \A j \in 1..Len(D) : DecisionSchemaOK(D[j]) /\ DecisionPlainJSON(D[j])
Ordered == Cut => (OrderedOK(base, D) /\ SamePathContiguous(base, D))
SplitInvariance == Cut => LET ad == ApplyDecisions(base, D) IN ad.ok /\ Eq(ad.v, r)
Untouched == (Cut /\ wrap) => Eq(r.m["z"], Int("5"))

Emit == EMIT => (Cut => PrintT("DCASE " \o ToJson([base |-> base, D |-> D, r |-> r, tag |-> tag])))
=============================================================================
