----------------------------- MODULE SeqDiffAlgo -----------------------------
(***************************************************************************)
(* Transcription of nbdime's list differ for sequences of atomic items     *)
(* (diffing/seq_bruteforce.py, diffing/lcs.py, SequenceDiffBuilder):       *)
(*   LLCS grid  R(x, y) = length of a longest common subsequence of        *)
(*              A[1..x], B[1..y]                                           *)
(*   backtracking from (N, M): match if the items are equal, else go up if *)
(*              R(x,y) = R(x-1,y), else left                               *)
(*   diff_from_lcs: removerange / addrange between consecutive matches,    *)
(*              an insertion being placed before a removal at the same key *)
(* Design-level properties (checked by TLC in MergeAlgo / SeqDiffModel):   *)
(*   the result is WellFormed for A, Patch(A, d) = B, and it keeps exactly *)
(*   LLCS(A, B) items (optimal).                                           *)
(***************************************************************************)
EXTENDS DiffFormat

\* A, B: sequences of JSON values compared with Eq
LLCS(A, B) ==
  LET RECURSIVE R(_, _)
      R(x, y) == IF x = 0 \/ y = 0 THEN 0
                 ELSE IF Eq(A[x], B[y]) THEN R(x - 1, y - 1) + 1
                 ELSE Max(R(x - 1, y), R(x, y - 1))
  IN R(Len(A), Len(B))

\* sequence of matched index pairs <<i, j>> (0-based), increasing
LcsPairs(A, B) ==
  LET RECURSIVE R(_, _)
      R(x, y) == IF x = 0 \/ y = 0 THEN 0
                 ELSE IF Eq(A[x], B[y]) THEN R(x - 1, y - 1) + 1
                 ELSE Max(R(x - 1, y), R(x, y - 1))
      RECURSIVE Back(_, _)
      Back(x, y) == IF x = 0 \/ y = 0 THEN <<>>
                    ELSE IF Eq(A[x], B[y]) THEN Append(Back(x - 1, y - 1), <<x - 1, y - 1>>)
                    ELSE IF R(x, y) = R(x - 1, y) THEN Back(x - 1, y)
                    ELSE Back(x, y - 1)
  IN Back(Len(A), Len(B))

RemoveRange(k, n) == [op |-> "removerange", kt |-> "i", key |-> k, length |-> n]
AddRange(k, vals) == [op |-> "addrange", kt |-> "i", key |-> k, valuelist |-> List(vals)]

\* diff_from_lcs with the builder's ordering (insertion before removal at one key)
ListDiff(A, B) ==
  LET pairs == LcsPairs(A, B)
      N == Len(A)
      M == Len(B)
      Piece(x, y, i, j) ==           \* ops between position (x, y) and the next match (i, j)
        (IF j > y THEN <<AddRange(x, SubSeq(B, y + 1, j))>> ELSE <<>>) \o
        (IF i > x THEN <<RemoveRange(x, i - x)>> ELSE <<>>)
      RECURSIVE Go(_, _, _)
      Go(r, x, y) == IF r > Len(pairs) THEN Piece(x, y, N, M)
                     ELSE Piece(x, y, pairs[r][1], pairs[r][2]) \o Go(r + 1, pairs[r][1] + 1, pairs[r][2] + 1)
  IN Go(1, 0, 0)

\* number of base items a sequence diff keeps
Kept(n, d) ==
  LET RECURSIVE S(_)
      S(j) == IF j = 0 THEN 0 ELSE S(j - 1) + (IF d[j].op = "removerange" THEN d[j].length ELSE 0)
  IN n - S(Len(d))

\* object differ for atomic values (diff_dicts): remove, replace, add in key order KS
ObjDiff(a, b, KS) ==
  LET Rem(k) == IF k \in DOMAIN a /\ k \notin DOMAIN b THEN <<[op |-> "remove", kt |-> "s", key |-> k]>> ELSE <<>>
      Rep(k) == IF k \in DOMAIN a /\ k \in DOMAIN b /\ ~Eq(a[k], b[k])
                THEN <<[op |-> "replace", kt |-> "s", key |-> k, value |-> b[k]]>> ELSE <<>>
      Add(k) == IF k \notin DOMAIN a /\ k \in DOMAIN b THEN <<[op |-> "add", kt |-> "s", key |-> k, value |-> b[k]]>> ELSE <<>>
  IN FlatSeq([j \in 1..Len(KS) |-> Rem(KS[j]) \o Rep(KS[j]) \o Add(KS[j])])
=============================================================================
