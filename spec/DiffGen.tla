------------------------------- MODULE DiffGen -------------------------------
(***************************************************************************)
(* Generator of canonical well-formed sequence diffs: an insertion choice  *)
(* for every gap, a fate keep / remove / patch for every item, a choice    *)
(* whether adjacent removals are merged into one removerange.  Shared by   *)
(* DiffModel (all diffs of a document) and MergeAlgo (all pairs of diffs   *)
(* of a base).                                                             *)
(***************************************************************************)
EXTENDS DiffFormat

\* Build the entry sequence.  n items; ins[k] for gap k in 0..n is a (possibly
\* empty) JSON valuelist value or "none"; fate[j] for item j in 1..n is
\* <<"keep">>, <<"rm">> or <<"patch", subdiff>>.
BuildSeq(n, ins, fate, merge) ==
  LET RECURSIVE Go(_, _)
      Go(k, acc) ==          \* k = 0-based position, acc = entries so far
        IF k > n THEN acc
        ELSE
          LET acc1 == IF ins[k].none THEN acc
                      ELSE Append(acc, [op |-> "addrange", kt |-> "i", key |-> k,
                                        valuelist |-> ins[k].v])
          IN IF k = n THEN acc1
             ELSE LET f == fate[k + 1] IN
               CASE f[1] = "keep" -> Go(k + 1, acc1)
                 [] f[1] = "patch" ->
                      Go(k + 1, Append(acc1, [op |-> "patch", kt |-> "i", key |-> k, diff |-> f[2]]))
                 [] f[1] = "rm" ->
                      LET last == IF Len(acc1) = 0 THEN [op |-> "none"] ELSE acc1[Len(acc1)]
                      IN IF merge /\ last.op = "removerange" /\ last.key + last.length = k
                         THEN Go(k + 1, [acc1 EXCEPT ![Len(acc1)].length = @ + 1])
                         ELSE Go(k + 1, Append(acc1, [op |-> "removerange", kt |-> "i",
                                                      key |-> k, length |-> 1]))
  IN Go(0, <<>>)

InsChoices(InsSet, Wrap(_)) ==
  {[none |-> TRUE, v |-> Null]} \cup {[none |-> FALSE, v |-> Wrap(s)] : s \in InsSet \ {<<>>}}

=============================================================================
