----------------------------- MODULE IgnoreMatrix ----------------------------
(***************************************************************************)
(* Case matrix of C14: which categories are ignored, in which categories   *)
(* the two notebooks differ, and through which channel the ignore options  *)
(* are given.  TLC enumerates the matrix (initial states) and derives what *)
(* the diff must look like:                                                *)
(*   ExpectEmpty   the notebooks differ only in ignored categories other   *)
(*                 than sources => the diff is empty                       *)
(* The per-event clauses (NoIgnoredPath, masked round trip) are in         *)
(* DiffContract / DiffTrace.                                               *)
(***************************************************************************)
EXTENDS Naturals, FiniteSets, Sequences, TLC, Json

CONSTANT EMIT
VARIABLES ignored, differing, channel
vars == <<ignored, differing, channel>>

Cats == {"sources", "outputs", "attachments", "metadata", "id", "details"}
\* positive / negative command line flags; an 'Ignore' mapping in one config section; the same mapping with key
\* lists for the metadata keys that differ; the mapping split over two sections and two config directories;
\* the ignorable booleans in a config file
\* leafmap: an 'Ignore' mapping that names the scalar leaves themselves (".../execution_count": true, ".../id": true)
\* mapflags: two installations on one path - an 'Ignore' mapping with a key list for the cell ids in the configuration
\* file, then negative flags for the other categories (ignoring details installs a second key list on the same path)
Channels == {"positive", "negative", "ignoremap", "keylist", "splitmap", "configbools", "leafmap", "mapflags"}

\* positive flags name the categories to show: cannot express "ignore everything", and no flag = show all
Expressible == /\ channel = "positive" => (ignored # Cats /\ ignored # {})
               /\ channel = "mapflags" => {"id", "details"} \subseteq ignored

Init == /\ ignored \in SUBSET Cats
        /\ differing \in SUBSET Cats
        /\ channel \in Channels
        /\ Expressible
Next == UNCHANGED vars
Spec == Init /\ [][Next]_vars

ExpectEmpty == differing \subseteq (ignored \ {"sources"})
\* a non-ignored difference must show up
ExpectNonEmpty == differing \ ignored # {}

Consistent == ~(ExpectEmpty /\ ExpectNonEmpty)

ToSeq(S) == LET RECURSIVE E(_)
                E(X) == IF X = {} THEN <<>> ELSE LET x == CHOOSE y \in X : TRUE IN <<x>> \o E(X \ {x})
            IN E(S)
Emit == EMIT => PrintT("CASE " \o ToJson([ignored |-> ToSeq(ignored), differing |-> ToSeq(differing), channel |-> channel,
                                         expectEmpty |-> ExpectEmpty, expectNonEmpty |-> ExpectNonEmpty]))
=============================================================================
