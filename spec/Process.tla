------------------------------- MODULE Process ------------------------------
(***************************************************************************)
(* The long-lived interpreter (C12): the only state a diff may depend on   *)
(* besides its two notebooks is the table of ignore options.               *)
(*                                                                         *)
(* ign : for each configurable notebook path                               *)
(*         [all |-> the whole sub-document is ignored,                     *)
(*          keys |-> set of direct keys of it that are ignored]            *)
(*       (the abstract content of nbdime's module-global differ table).    *)
(* Operations:                                                             *)
(*   SetTargets(S)   S = the categories to show (set_notebook_diff_targets *)
(*                   and the -s/-S ... command line flags)                  *)
(*   SetIgnores(m)   an 'Ignore' configuration mapping: path -> TRUE /     *)
(*                   FALSE / set of keys                                   *)
(*   Reset           reset_notebook_differ                                 *)
(*   Call(c)         a diff or merge of notebooks from a pool: must not    *)
(*                   change ign (frame condition) and its result is a      *)
(*                   function of (c, ign) only -- checked against the real *)
(*                   code by replaying every history (hist) and comparing  *)
(*                   each result with a pristine interpreter put into the  *)
(*                   model's ign state by ONE canonical SetIgnores.        *)
(***************************************************************************)
EXTENDS Naturals, Sequences, FiniteSets, TLC, Json

CONSTANTS MaxLen, Calls, TargetSets, IgnoreMaps, EMIT,
          ResetCalls      \* the calls that also occur glued to a preceding reset (subset of Calls)

VARIABLES ign, hist
vars == <<ign, hist>>

Paths == {"/cells/*/source", "/cells/*/outputs", "/cells/*/attachments", "/metadata", "/cells/*/id",
          "/cells/*/metadata", "/cells/*/outputs/*/metadata", "/cells/*", "/cells/*/outputs/*"}

Default == [all |-> FALSE, keys |-> {}]
Ignored == [all |-> TRUE, keys |-> {}]
DefaultIgn == [p \in Paths |-> Default]

\* one entry of an Ignore mapping applied to the current value
ApplyEntry(cur, v) ==
  IF v.kind = "true" THEN Ignored
  ELSE IF v.kind = "false" THEN Default
  ELSE [all |-> cur.all, keys |-> cur.keys \cup v.keys]       \* wraps the differ currently in place

T == [kind |-> "true", keys |-> {}]
F == [kind |-> "false", keys |-> {}]
K(ks) == [kind |-> "keys", keys |-> ks]

\* set_notebook_diff_targets(sources, outputs, attachments, metadata, id, details) as an Ignore mapping
TargetsMap(S) ==
  [p \in Paths |->
     CASE p = "/cells/*/source"      -> IF "sources" \in S THEN F ELSE T
       [] p = "/cells/*/outputs"     -> IF "outputs" \in S THEN F ELSE T
       [] p = "/cells/*/attachments" -> IF "attachments" \in S THEN F ELSE T
       [] p = "/metadata"            -> IF "metadata" \in S THEN F ELSE T
       [] p = "/cells/*/id"          -> IF "id" \in S THEN F ELSE T
       [] p = "/cells/*/metadata"    -> IF "metadata" \in S THEN F ELSE T
       [] p = "/cells/*/outputs/*/metadata" -> IF "metadata" \in S THEN F ELSE T
       [] p = "/cells/*"             -> IF "details" \in S THEN F ELSE K({"execution_count"})
       [] p = "/cells/*/outputs/*"   -> IF "details" \in S THEN F ELSE K({"execution_count"})]

AllCats == {"sources", "outputs", "attachments", "metadata", "id", "details"}

\* the Ignore mappings of the alphabet, by name
MapOf(name) ==
  CASE name = "cellmeta-keys" -> [p \in {"/cells/*/metadata"} |-> K({"collapsed", "tags"})]
    [] name = "nbmeta-true"   -> [p \in {"/metadata"} |-> T]
    [] name = "outputs-false" -> [p \in {"/cells/*/outputs"} |-> F]
    [] name = "cell-keys"     -> [p \in {"/cells/*"} |-> K({"metadata"})]

Init == ign = DefaultIgn /\ hist = <<>>

Record(op) == hist' = Append(hist, [op |-> op, ign |-> ign'])

\* via = "api": set_notebook_diff_targets;  via = "flags": the nbdiff command line parser with
\* positive flags for S (or negative flags for its complement) followed by process_diff_flags
SetTargets(S, via) ==
  /\ via = "flags" => S # AllCats            \* no flag given = nothing happens
  /\ ign' = [p \in Paths |-> ApplyEntry(ign[p], TargetsMap(S)[p])]
  /\ Record([kind |-> "targets", show |-> S, via |-> via])

SetIgnores(name) ==
  /\ ign' = [p \in Paths |-> IF p \in DOMAIN MapOf(name) THEN ApplyEntry(ign[p], MapOf(name)[p]) ELSE ign[p]]
  /\ Record([kind |-> "ignores", name |-> name])

Reset ==
  /\ ign' = DefaultIgn
  /\ Record([kind |-> "reset"])

Call(c) ==
  /\ ign' = ign
  /\ Record([kind |-> "call", call |-> c])

\* a reset directly followed by a call (one step of the bounded search, two entries of the history): what the next
\* request sees after the options were reset - keeps "set, call, reset, call" within the bound of three steps
ResetThenCall(c) ==
  /\ ign' = DefaultIgn
  /\ hist' = Append(Append(hist, [op |-> [kind |-> "reset"], ign |-> DefaultIgn]),
                    [op |-> [kind |-> "call", call |-> c], ign |-> DefaultIgn])

Next == /\ Len(hist) < MaxLen
        /\ \/ \E S \in TargetSets, via \in {"api", "flags"} : SetTargets(S, via)
           \/ \E m \in IgnoreMaps : SetIgnores(m)
           \/ Reset
           \/ \E c \in Calls : Call(c)
           \/ \E c \in ResetCalls : ResetThenCall(c)
Spec == Init /\ [][Next]_vars

(***************************************************************************)
(* Properties                                                              *)
(***************************************************************************)
TypeOK == \A p \in Paths : ign[p].all \in BOOLEAN /\ ign[p].keys \subseteq {"execution_count", "collapsed", "tags", "metadata"}

\* library calls never change the ignore options (action property)
CallsArePure == [][(\E c \in Calls : hist' = Append(hist, [op |-> [kind |-> "call", call |-> c], ign |-> ign'])) => ign' = ign]_vars
\* a call right after a reset sees the default options

\* resetting restores the original behaviour
LastOp == hist[Len(hist)].op
ResetRestores == /\ (Len(hist) > 0 /\ LastOp.kind = "reset") => ign = DefaultIgn
                 /\ \A k \in 2..Len(hist) : (hist[k - 1].op.kind = "reset" /\ hist[k].op.kind = "call") => hist[k].ign = DefaultIgn
\* showing everything restores the original behaviour for the six categories
ShowAllRestores == (Len(hist) > 0 /\ LastOp.kind = "targets" /\ LastOp.show = AllCats) => ign = DefaultIgn
\* the flags are idempotent
TargetsIdempotent ==
  (Len(hist) > 1 /\ LastOp.kind = "targets" /\ hist[Len(hist) - 1].op = LastOp) => ign = hist[Len(hist) - 1].ign

ToSeq(S) == LET RECURSIVE E(_)
                E(X) == IF X = {} THEN <<>> ELSE LET x == CHOOSE y \in X : TRUE IN <<x>> \o E(X \ {x})
            IN E(S)
IgnJson(g) == [p \in Paths |-> [all |-> g[p].all, keys |-> ToSeq(g[p].keys)]]
OpJson(o) == IF o.kind = "targets" THEN [kind |-> "targets", show |-> ToSeq(o.show), via |-> o.via] ELSE o
Emit == (EMIT /\ Len(hist) > 0) =>
          PrintT("HIST " \o ToJson([k \in 1..Len(hist) |-> [op |-> OpJson(hist[k].op), ign |-> IgnJson(hist[k].ign)]]))
=============================================================================
