------------------------------- MODULE WebApi --------------------------------
(***************************************************************************)
(* The local web server's API (C20) as a state machine.                    *)
(*   Mode    how the server was started (fixed per behaviour):             *)
(*     tooldiff / toolmerge  it was given the notebooks as tool arguments  *)
(*                 (git difftool / mergetool): requests then carry no      *)
(*                 file names and the body is not consulted                *)
(*     outfile     an output file was fixed at start-up                    *)
(*     closable    remote shutdown allowed                                 *)
(*   disk    abstract content of the server directory: file -> content id  *)
(*   running the server still answers                                      *)
(* Each request kind is an action; the response class is                   *)
(*   "ok" (2xx), "error" (>= 400), "none" (server gone).                   *)
(***************************************************************************)
EXTENDS Naturals, Sequences, FiniteSets, TLC, Json

CONSTANTS Mode, MaxLen, EMIT

VARIABLES disk, running, hist
vars == <<disk, running, hist>>

Modes ==
  [ server        |-> [tooldiff |-> FALSE, toolmerge |-> FALSE, outfile |-> FALSE, closable |-> FALSE, badlocal |-> FALSE],
    difftool      |-> [tooldiff |-> TRUE,  toolmerge |-> FALSE, outfile |-> FALSE, closable |-> TRUE,  badlocal |-> FALSE],
    \* the diff tool started on two revisions of a repository: the notebooks are open streams, not file names
    difftool_refs |-> [tooldiff |-> TRUE,  toolmerge |-> FALSE, outfile |-> FALSE, closable |-> TRUE,  badlocal |-> FALSE],
    mergetool_out |-> [tooldiff |-> FALSE, toolmerge |-> TRUE,  outfile |-> TRUE,  closable |-> TRUE,  badlocal |-> FALSE],
    mergetool     |-> [tooldiff |-> FALSE, toolmerge |-> TRUE,  outfile |-> FALSE, closable |-> TRUE,  badlocal |-> FALSE],
    \* the merge tool started on a local file that is not a notebook (git left conflict markers in it)
    mergetool_badfile |-> [tooldiff |-> FALSE, toolmerge |-> TRUE, outfile |-> FALSE, closable |-> TRUE, badlocal |-> TRUE],
    mergeweb_out  |-> [tooldiff |-> FALSE, toolmerge |-> FALSE, outfile |-> TRUE,  closable |-> FALSE, badlocal |-> FALSE] ]
M == Modes[Mode]

Files == {"a.ipynb", "b.ipynb", "c.ipynb", "notnb.txt", "out.ipynb"}
Disk0 == [f \in Files |-> CASE f = "a.ipynb" -> 1 [] f = "b.ipynb" -> 2 [] f = "c.ipynb" -> 3
                            [] f = "notnb.txt" -> 4 [] f = "out.ipynb" -> 5]
\* content ids 6, 7: the notebooks submitted by the two store requests of the alphabet

Requests ==
  {"diff_ab", "diff_bc", "diff_badjson", "diff_missingkey", "diff_notnb", "diff_nofile",
   "merge_abc", "merge_badjson", "merge_missingkey", "merge_notnb",
   "store_6", "store_7_extra", "store_badjson", "store_missingkey", "store_notnb",
   \* a schema-valid notebook whose text holds an unpaired surrogate (JSON escape \ud800): it cannot be encoded as
   \* UTF-8, so the server may refuse it - but then nothing may change - or store it
   "store_surrogate",
   "close", "unknown_route",
   \* a path that differs from an API route in one character (where the base URL has a regular expression
   \* metacharacter, in that character): unknown, whatever the base URL looks like
   "near_route"}

IsDiff(r)  == r \in {"diff_ab", "diff_bc", "diff_badjson", "diff_missingkey", "diff_notnb", "diff_nofile"}
IsMerge(r) == r \in {"merge_abc", "merge_badjson", "merge_missingkey", "merge_notnb"}
IsStore(r) == r \in {"store_6", "store_7_extra", "store_badjson", "store_missingkey", "store_notnb", "store_surrogate"}
ValidBody(r) == r \in {"diff_ab", "diff_bc", "merge_abc", "store_6", "store_7_extra"}

Response(r) ==
  IF ~running THEN "none"
  ELSE CASE IsDiff(r)  -> IF M.tooldiff \/ ValidBody(r) THEN "ok" ELSE "error"
         [] IsMerge(r) -> IF M.badlocal THEN "error" ELSE IF M.toolmerge \/ ValidBody(r) THEN "ok" ELSE "error"
         [] IsStore(r) -> IF M.outfile /\ ValidBody(r) THEN "ok" ELSE "error"
         [] r = "close" -> IF M.closable THEN "ok" ELSE "error"
         [] OTHER -> "error"

\* Alternative answers the property equally allows: in the tool modes the body of a diff / merge request is not
\* needed, so a malformed one may be answered from the start-up arguments (what nbdime does) or be refused.
AltResponses(r) ==
  IF running /\ ~ValidBody(r) /\ ((IsDiff(r) /\ M.tooldiff) \/ (IsMerge(r) /\ M.toolmerge /\ ~M.badlocal)) THEN {"error"}
  \* accepted instead of refused: the replay then expects the submitted notebook in the output file and ends there
  ELSE IF running /\ r = "store_surrogate" /\ M.outfile THEN {"ok"}
  ELSE {}

Init == disk = Disk0 /\ running = TRUE /\ hist = <<>>

Do(r) ==
  /\ disk' = IF running /\ M.outfile /\ r = "store_6" THEN [disk EXCEPT !["out.ipynb"] = 6]
             ELSE IF running /\ M.outfile /\ r = "store_7_extra" THEN [disk EXCEPT !["out.ipynb"] = 7]
             ELSE disk
  /\ running' = IF running /\ r = "close" /\ M.closable THEN FALSE ELSE running
  /\ hist' = Append(hist, [req |-> r, resp |-> Response(r), alt |-> AltResponses(r), disk |-> disk', running |-> running'])

Next == Len(hist) < MaxLen /\ \E r \in Requests : Do(r)
Spec == Init /\ [][Next]_vars

(***************************************************************************)
(* Properties                                                              *)
(***************************************************************************)
\* only the output file fixed at start-up ever changes, and only by a successful store
OnlyOutputFileEverChanges ==
  [][\A f \in Files : disk'[f] # disk[f] =>
        (f = "out.ipynb" /\ M.outfile /\ hist'[Len(hist')].resp = "ok" /\ IsStore(hist'[Len(hist')].req))]_vars
StoreRefusedWithoutOutput ==
  \A k \in 1..Len(hist) : (IsStore(hist[k].req) /\ ~M.outfile /\ hist[k].resp # "none") => hist[k].resp = "error"
CloseOnlyIfClosable ==
  (~M.closable) => running
ErrorsChangeNothing ==
  \A k \in 1..Len(hist) : hist[k].resp = "error" =>
      hist[k].disk = (IF k = 1 THEN Disk0 ELSE hist[k - 1].disk)
\* the answer class depends only on the request and whether the server still runs
AnswerIndependentOfHistory ==
  \A j, k \in 1..Len(hist) :
     (hist[j].req = hist[k].req /\ hist[j].resp # "none" /\ hist[k].resp # "none") => hist[j].resp = hist[k].resp

DiskJson(d) == [f \in Files |-> d[f]]
Emit == (EMIT /\ Len(hist) = MaxLen) =>
  PrintT("SEQ " \o ToJson([k \in 1..Len(hist) |->
            [req |-> hist[k].req, resp |-> hist[k].resp, alt |-> IF hist[k].alt = {} THEN <<>> ELSE IF "ok" \in hist[k].alt THEN <<"ok">> ELSE <<"error">>,
             disk |-> DiskJson(hist[k].disk), running |-> hist[k].running]]))
=============================================================================
