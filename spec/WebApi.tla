------------------------------- MODULE WebApi --------------------------------
(***************************************************************************)
(* The local web server's API (C20) as a state machine.                    *)
(*   Mode    how the server was started (fixed per behaviour):             *)
(*     tooldiff / toolmerge  it was given the notebooks as tool arguments  *)
(*                 (git difftool / mergetool): requests then carry no      *)
(*                 file names and the body is not consulted                *)
(*     outfile     an output file was fixed at start-up                    *)
(*     closable    remote shutdown allowed                                 *)
(*   disk    abstract content of the server directory: file -> content id  *)
(*   running the server still answers                                      *)
(* Each request kind is an action; the response class is                   *)
(*   "ok" (2xx), "error" (>= 400), "none" (server gone).                   *)
(***************************************************************************)
EXTENDS Naturals, Sequences, FiniteSets, TLC, Json

CONSTANTS Mode, MaxLen, EMIT

VARIABLES disk, running, hist
vars == <<disk, running, hist>>

Mk(td, tm, of, cl, bl, kind) == [tooldiff |-> td, toolmerge |-> tm, outfile |-> of, closable |-> cl, badlocal |-> bl, out |-> kind]
Modes ==
  [ server        |-> Mk(FALSE, FALSE, FALSE, FALSE, FALSE, "file"),
    difftool      |-> Mk(TRUE,  FALSE, FALSE, TRUE,  FALSE, "file"),
    \* the diff tool started on two revisions of a repository: the notebooks are open streams, not file names
    difftool_refs |-> Mk(TRUE,  FALSE, FALSE, TRUE,  FALSE, "file"),
    mergetool_out |-> Mk(FALSE, TRUE,  TRUE,  TRUE,  FALSE, "file"),
    mergetool     |-> Mk(FALSE, TRUE,  FALSE, TRUE,  FALSE, "file"),
    \* the merge tool started on a local file that is not a notebook (git left conflict markers in it)
    mergetool_badfile |-> Mk(FALSE, TRUE, FALSE, TRUE, TRUE, "file"),
    mergeweb_out  |-> Mk(FALSE, FALSE, TRUE,  FALSE, FALSE, "file"),
    \* the merge tool started with the LOCAL notebook as output file (resolve in place): a stored result is an input of
    \* the next merge request, which must be answered from what is on disk then
    mergetool_inplace |-> Mk(FALSE, TRUE, TRUE, TRUE, FALSE, "local"),
    \* the output file lies in a directory that does not exist (yet): storing may fail - then nothing, no directory
    \* either, may appear - or create it
    mergeweb_newdir |-> Mk(FALSE, FALSE, TRUE, FALSE, FALSE, "newdir") ]
M == Modes[Mode]
OutFile == IF M.out = "local" THEN "b.ipynb" ELSE "out.ipynb"

Files == {"a.ipynb", "b.ipynb", "c.ipynb", "notnb.txt", "out.ipynb"}
\* content id 0: the file does not exist
Disk0 == [f \in Files |-> CASE f = "a.ipynb" -> 1 [] f = "b.ipynb" -> 2 [] f = "c.ipynb" -> 3
                            [] f = "notnb.txt" -> 4 [] f = "out.ipynb" -> IF M.out = "newdir" THEN 0 ELSE 5]
\* content ids 6, 7: the notebooks submitted by the two store requests of the alphabet

Requests ==
  {"diff_ab", "diff_bc", "diff_badjson", "diff_missingkey", "diff_notnb", "diff_nofile",
   "merge_abc", "merge_badjson", "merge_missingkey", "merge_notnb",
   "store_6", "store_7_extra", "store_badjson", "store_missingkey", "store_notnb",
   \* a schema-valid notebook whose text holds an unpaired surrogate (JSON escape \ud800): it cannot be encoded as
   \* UTF-8, so the server may refuse it - but then nothing may change - or store it
   "store_surrogate",
   "close", "unknown_route",
   \* a path that differs from an API route in one character (where the base URL has a regular expression
   \* metacharacter, in that character): unknown, whatever the base URL looks like
   "near_route"}

IsDiff(r)  == r \in {"diff_ab", "diff_bc", "diff_badjson", "diff_missingkey", "diff_notnb", "diff_nofile"}
IsMerge(r) == r \in {"merge_abc", "merge_badjson", "merge_missingkey", "merge_notnb"}
IsStore(r) == r \in {"store_6", "store_7_extra", "store_badjson", "store_missingkey", "store_notnb", "store_surrogate"}
ValidBody(r) == r \in {"diff_ab", "diff_bc", "merge_abc", "store_6", "store_7_extra"}

Response(r) ==
  IF ~running THEN "none"
  ELSE CASE IsDiff(r)  -> IF M.tooldiff \/ ValidBody(r) THEN "ok" ELSE "error"
         [] IsMerge(r) -> IF M.badlocal THEN "error" ELSE IF M.toolmerge \/ ValidBody(r) THEN "ok" ELSE "error"
         [] IsStore(r) -> IF M.outfile /\ ValidBody(r) /\ M.out # "newdir" THEN "ok" ELSE "error"
         [] r = "close" -> IF M.closable THEN "ok" ELSE "error"
         [] OTHER -> "error"

\* Alternative answers the property equally allows: in the tool modes the body of a diff / merge request is not
\* needed, so a malformed one may be answered from the start-up arguments (what nbdime does) or be refused.
AltResponses(r) ==
  IF running /\ ~ValidBody(r) /\ ((IsDiff(r) /\ M.tooldiff) \/ (IsMerge(r) /\ M.toolmerge /\ ~M.badlocal)) THEN {"error"}
  \* accepted instead of refused: the replay then expects the submitted notebook in the output file and ends there
  ELSE IF running /\ r = "store_surrogate" /\ M.outfile THEN {"ok"}
  ELSE IF running /\ IsStore(r) /\ ValidBody(r) /\ M.out = "newdir" THEN {"ok"}
  ELSE {}

Init == disk = Disk0 /\ running = TRUE /\ hist = <<>>

Do(r) ==
  /\ disk' = IF running /\ Response(r) = "ok" /\ r = "store_6" THEN [disk EXCEPT ![OutFile] = 6]
             ELSE IF running /\ Response(r) = "ok" /\ r = "store_7_extra" THEN [disk EXCEPT ![OutFile] = 7]
             ELSE disk
  /\ running' = IF running /\ r = "close" /\ M.closable THEN FALSE ELSE running
  /\ hist' = Append(hist, [req |-> r, resp |-> Response(r), alt |-> AltResponses(r), disk |-> disk', running |-> running'])

Next == Len(hist) < MaxLen /\ \E r \in Requests : Do(r)
Spec == Init /\ [][Next]_vars

(***************************************************************************)
(* Properties                                                              *)
(***************************************************************************)
\* only the output file fixed at start-up ever changes, and only by a successful store
OnlyOutputFileEverChanges ==
  [][\A f \in Files : disk'[f] # disk[f] =>
        (f = OutFile /\ M.outfile /\ hist'[Len(hist')].resp = "ok" /\ IsStore(hist'[Len(hist')].req))]_vars
StoreRefusedWithoutOutput ==
  \A k \in 1..Len(hist) : (IsStore(hist[k].req) /\ ~M.outfile /\ hist[k].resp # "none") => hist[k].resp = "error"
CloseOnlyIfClosable ==
  (~M.closable) => running
ErrorsChangeNothing ==
  \A k \in 1..Len(hist) : hist[k].resp = "error" =>
      hist[k].disk = (IF k = 1 THEN Disk0 ELSE hist[k - 1].disk)
\* the answer class depends only on the request and whether the server still runs
AnswerIndependentOfHistory ==
  \A j, k \in 1..Len(hist) :
     (hist[j].req = hist[k].req /\ hist[j].resp # "none" /\ hist[k].resp # "none") => hist[j].resp = hist[k].resp

DiskJson(d) == [f \in Files |-> d[f]]
Emit == (EMIT /\ Len(hist) = MaxLen) =>
  PrintT("SEQ " \o ToJson([k \in 1..Len(hist) |->
            [req |-> hist[k].req, resp |-> hist[k].resp, alt |-> IF hist[k].alt = {} THEN <<>> ELSE IF "ok" \in hist[k].alt THEN <<"ok">> ELSE <<"error">>,
             disk |-> DiskJson(hist[k].disk), running |-> hist[k].running]]))
=============================================================================
