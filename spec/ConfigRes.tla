------------------------------ MODULE ConfigRes ------------------------------
(***************************************************************************)
(* Documented option resolution (docs/source/config.rst, C19):             *)
(*   effective value = the command line flag if given, otherwise the value *)
(*   from the most specific configuration section that sets the option,    *)
(*   otherwise the built-in default; among files setting the option in the *)
(*   SAME section the directory of highest priority wins (the working      *)
(*   directory first).  'Ignore' mappings are merged path by path, the     *)
(*   most specific section winning for each path.                          *)
(*                                                                         *)
(* One run = one entry point: Chain is its documented section list from    *)
(* most to least specific.  A site is <<dir, section index>> (dir 1 = cwd, *)
(* higher numbers = lower priority).  TLC enumerates every assignment of   *)
(* the option to at most MaxSites sites, with and without a flag; for      *)
(* 'Ignore' every site additionally picks which of two paths it mentions.  *)
(***************************************************************************)
EXTENDS Naturals, Sequences, FiniteSets, TLC, Json

CONSTANTS EP,           \* the entry point
          NDirs, MaxSites, EMIT

\* documented section lists, most specific first (docs/source/config.rst, "Sections")
Chains ==
  [ nbdiff            |-> <<"NbDiff", "GitDiff", "Diff", "Global">>,
    nbdiffweb         |-> <<"NbDiffWeb", "GitDiff", "Diff", "Web", "Global">>,
    nbmerge           |-> <<"NbMerge", "Merge", "Global">>,
    nbmergeweb        |-> <<"NbMergeWeb", "Merge", "Web", "Global">>,
    nbshow            |-> <<"NbShow", "Global">>,
    server            |-> <<"Server", "Web", "Global">>,
    extension         |-> <<"Extension", "GitDiff", "Diff", "Global">>,
    gitnbdiffdriver   |-> <<"NbDiffDriver", "GitDiff", "Diff", "Global">>,
    gitnbdifftool     |-> <<"NbDiffTool", "GitDiff", "Diff", "WebTool", "Web", "Global">>,
    gitnbmergedriver  |-> <<"NbMergeDriver", "GitMerge", "Merge", "Global">>,
    gitnbmergetool    |-> <<"NbMergeTool", "GitMerge", "Merge", "WebTool", "Web", "Global">> ]
Chain == Chains[EP]

VARIABLES sites, flag, paths
vars == <<sites, flag, paths>>

Sites == (1..NDirs) \X (1..Len(Chain))
IgnPaths == {"P1", "P2"}

\* s is better than t: more specific section, then higher-priority directory
Better(s, t) == s[2] < t[2] \/ (s[2] = t[2] /\ s[1] < t[1])
Best(S) == CHOOSE s \in S : \A t \in S \ {s} : Better(s, t)

Winner == IF flag THEN "flag"
          ELSE IF sites = {} THEN "default"
          ELSE "site"
WinnerSite == IF sites = {} THEN <<0, 0>> ELSE Best(sites)

\* for the Ignore mapping: per path the best site that mentions it (<<0,0>> = nobody)
PathWinner(p) == LET S == {s \in sites : p \in paths[s]} IN IF S = {} THEN <<0, 0>> ELSE Best(S)

Init == /\ sites \in {S \in SUBSET Sites : Cardinality(S) <= MaxSites}
        /\ flag \in BOOLEAN
        /\ paths \in [sites -> (SUBSET IgnPaths) \ {{}}]
Next == UNCHANGED vars
Spec == Init /\ [][Next]_vars

(***************************************************************************)
(* The documented rule, restated as invariants of the definition            *)
(***************************************************************************)
FlagWins == flag => Winner = "flag"
DefaultIffNothingSet == (~flag /\ sites = {}) <=> Winner = "default"
MostSpecificWins ==
  (Winner = "site") => \A t \in sites : WinnerSite[2] <= t[2]
CwdBeatsOtherDirsInSameSection ==
  (Winner = "site") => \A t \in sites : t[2] = WinnerSite[2] => WinnerSite[1] <= t[1]
IgnoreMergedPathwise ==
  \A p \in IgnPaths : (PathWinner(p) = <<0, 0>>) <=> (\A s \in sites : p \notin paths[s])

ToSeq(S) == LET RECURSIVE E(_)
                E(X) == IF X = {} THEN <<>> ELSE LET x == CHOOSE y \in X : TRUE IN <<x>> \o E(X \ {x})
            IN E(S)
SiteSeq == ToSeq(sites)
Emit == EMIT =>
  PrintT("CASE " \o ToJson([sites |-> [k \in 1..Len(SiteSeq) |->
                                         [dir |-> SiteSeq[k][1], section |-> Chain[SiteSeq[k][2]],
                                          paths |-> ToSeq(paths[SiteSeq[k]])]],
                            flag |-> flag, winner |-> Winner,
                            wdir |-> WinnerSite[1],
                            wsection |-> IF WinnerSite[2] = 0 THEN "" ELSE Chain[WinnerSite[2]],
                            pathwinners |-> [p \in IgnPaths |->
                                [dir |-> PathWinner(p)[1],
                                 section |-> IF PathWinner(p)[2] = 0 THEN "" ELSE Chain[PathWinner(p)[2]]]]]))
=============================================================================
