------------------------------ MODULE MergeAlgo ------------------------------
(***************************************************************************)
(* Transcription of nbdime's generic three-way merge without strategies:   *)
(*   merging/chunks.py   boundaries, splitting of removals, chunk assembly *)
(*   merging/generic.py  the chunk-type switch of _merge_lists with ALL    *)
(*                       its arms (one-sided, agreement, patch/patch with  *)
(*                       recursion into the item, patch/remove, insert     *)
(*                       before patch/remove, concurrent inserts with and  *)
(*                       without removal), _merge_concurrent_inserts,      *)
(*                       _split_addrange, _merge_dicts for atomic values   *)
(*   merging/decisions.py  add_decision's ensure_common_path (PushOut) and *)
(*                       the ordering of validated() (Validated)           *)
(* on top of the transcribed differ (SeqDiffAlgo) and the reference        *)
(* semantics of decisions (MergeFormat).                                   *)
(*                                                                         *)
(* State machine: Init picks the inputs from a bounded universe -          *)
(*   Kind "lists" / "objects": base, local, remote; the diffs are computed *)
(*        by the transcribed differ;                                       *)
(*   Kind "nested": a base list of small objects and EVERY pair of         *)
(*        canonical well-formed diffs of it (DiffGen), patch entries       *)
(*        included; local / remote are Patch(base, diff) -                 *)
(* Decide computes the decisions and the merged document.                  *)
(* TLC checks at design level, for EVERY input of the universe:            *)
(*   ChunkShapes     <= 1 insertion and <= 1 removal per side per chunk,   *)
(*                   removals of the two sides cover the same range        *)
(*   DiffsCorrect    the diffs are well-formed and exact (and optimal for  *)
(*                   the transcribed differ)                               *)
(*   NoErrorArm      the "not expecting" / "unhandled" arms are unreachable*)
(*   Applies         the decisions apply (MergeFormat!ApplyDecisions)      *)
(*   AllLocal/AllRemote  relabelling every decision reproduces that side   *)
(*   Laws            identity, one-sided adoption, agreement (C05)         *)
(*   Symmetric       same verdict / same result with roles swapped unless  *)
(*                   both sides insert at one position (C05)               *)
(*   DisjointClean   changes at separated positions never conflict and     *)
(*                   both are applied (C06)                                *)
(*   EmbeddedAllWF   every embedded diff is well-formed (C11)              *)
(* With EMIT every (base, local, remote, diffs, decisions, merged) is      *)
(* printed and compared with what nbdime's decide_merge[_with_diff] /      *)
(* apply_decisions return (path, action, conflict, diffs, merged).         *)
(***************************************************************************)
EXTENDS MergeContract, SeqDiffAlgo, DiffGen, Json

CONSTANTS MaxLen, EMIT,
          Kind,        \* "lists" | "objects" (diffs computed by the transcribed differ) |
                       \* "nested" (lists of small objects; EVERY pair of well-formed diffs of the base, patch entries included)
          NIns,        \* nested: number of insertion choices per gap (2: none / one item; 3: two different items)
          NPatch,      \* nested: "few" (two replacing patches per item) | "all" (remove / replace / add per key)
          NAtoms,      \* lists / objects: 3 atoms (1, 2, "x") or 4 (also true: for Python true == 1, for JSON it is not)
          StratMode    \* "none" (no strategies, no transients) | "few" | "all": the strategy configurations of StratU

VARIABLES base, local, remote, ldv, rdv, D, merged, phase,
          st           \* the strategy configuration: [l: strategy on "/", i: on "/*", k: on the keys of an object,
                       \*                              t: set of transient keys]
vars == <<base, local, remote, ldv, rdv, D, merged, phase, st>>

Atoms == {Int("1"), Int("2"), Str(<<120>>)} \cup (IF NAtoms = 4 THEN {Bool("true")} ELSE {})
RECURSIVE SeqsUpTo(_, _)
SeqsUpTo(S, n) == IF n = 0 THEN {<<>>}
                  ELSE LET P == SeqsUpTo(S, n - 1)
                       IN P \cup {Append(s, x) : s \in {q \in P : Len(q) = n - 1}, x \in S}
ListU == SeqsUpTo(Atoms, MaxLen)
KS == <<"a", "b">>                        \* the keys, in sorted order
ObjU == UNION {[K -> Atoms] : K \in SUBSET {KS[j] : j \in 1..Len(KS)}}

\* nested universe: lists of two kinds of small objects, and all their canonical well-formed diffs
NItem1 == Obj([k \in {"a"} |-> Int("1")])
NItem2 == Obj([k \in {"a", "b"} |-> IF k = "a" THEN Int("1") ELSE Int("2")])
NestU == SeqsUpTo({NItem1, NItem2}, MaxLen)
ORm(k) == [op |-> "remove", kt |-> "s", key |-> k]
ORp(k, v) == [op |-> "replace", kt |-> "s", key |-> k, value |-> v]
OAd(k, v) == [op |-> "add", kt |-> "s", key |-> k, value |-> v]
ItemDiffs(it) ==
  IF NPatch = "few" THEN {<<ORp("a", Int("7"))>>, <<ORp("a", Int("8"))>>}
  ELSE LET FA == {<<>>, <<ORm("a")>>, <<ORp("a", Int("7"))>>, <<ORp("a", Int("8"))>>}
           FB == IF "b" \in DOMAIN it.m THEN {<<>>, <<ORm("b")>>, <<ORp("b", Int("7"))>>} ELSE {<<>>, <<OAd("b", Int("7"))>>}
       IN {x \o y : x \in FA, y \in FB} \ {<<>>}
NInsU == IF NIns = 2 THEN {<<NItem1>>} ELSE {<<NItem1>>, <<NItem2>>}
NestedDiffs(items) ==
  LET n == Len(items)
      Fates(j) == {<<"keep">>, <<"rm">>} \cup {<<"patch", sd>> : sd \in ItemDiffs(items[j])}
      FateFns == IF n = 0 THEN {<<>>}
                 ELSE {f \in [1..n -> UNION {Fates(j) : j \in 1..n}] : \A j \in 1..n : f[j] \in Fates(j)}
  IN {BuildSeq(n, ins, fate, mg) : ins \in [0..n -> InsChoices(NInsU, List)], fate \in FateFns, mg \in BOOLEAN}

\* strings universe: multi-line strings over the lines "a\n", "b\n" and an unterminated last line "a"; all canonical
\* well-formed line diffs incl. changes inside a line (a character at column 0, one before the line end, the missing
\* line end added)
LineA == <<97, 10>>
LineB == <<98, 10>>
LineU == <<97>>
StrLinesU == SeqsUpTo({LineA, LineB}, MaxLen) \cup
             (IF MaxLen = 0 THEN {} ELSE {Append(q, LineU) : q \in SeqsUpTo({LineA, LineB}, MaxLen - 1)})
CharAdd(k, cp) == [op |-> "addrange", kt |-> "i", key |-> k, valuelist |-> Str(<<cp>>)]
LineDiffs(ln) == IF ln[Len(ln)] = 10
                 THEN {<<CharAdd(0, 88)>>, <<CharAdd(Len(ln) - 1, 33)>>}
                 ELSE {<<CharAdd(0, 88)>>, <<CharAdd(Len(ln), 10)>>}
SInsU == IF NIns = 2 THEN {<<Str(<<99, 10>>)>>} ELSE {<<Str(<<99, 10>>)>>, <<Str(<<100, 10>>)>>}
StringLineDiffs(lines) ==
  LET n == Len(lines)
      Fates(j) == {<<"keep">>, <<"rm">>} \cup {<<"patch", sd>> : sd \in LineDiffs(lines[j])}
      FateFns == IF n = 0 THEN {<<>>}
                 ELSE {f \in [1..n -> UNION {Fates(j) : j \in 1..n}] : \A j \in 1..n : f[j] \in Fates(j)}
  IN {BuildSeq(n, ins, fate, mg) : ins \in [0..n -> InsChoices(SInsU, List)], fate \in FateFns, mg \in BOOLEAN}

(***************************************************************************)
(* chunks.py                                                               *)
(***************************************************************************)
EntryEnds(e) == IF e.op = "removerange" THEN {e.key, e.key + e.length}
                ELSE IF e.op = "patch" THEN {e.key, e.key + 1} ELSE {e.key}
BoundarySet(n, ld, rd) ==
  {0, n} \cup UNION {EntryEnds(ld[j]) : j \in 1..Len(ld)} \cup UNION {EntryEnds(rd[j]) : j \in 1..Len(rd)}

SortedSeq(S) ==
  LET RECURSIVE E(_)
      E(X) == IF X = {} THEN <<>>
              ELSE LET m == CHOOSE x \in X : \A y \in X : x <= y IN <<m>> \o E(X \ {m})
  IN E(S)

\* split_diffs_on_boundaries: a removal is cut at every boundary strictly inside it
SplitOnBoundaries(d, B) ==
  LET Cut(e) ==
        IF e.op # "removerange" THEN <<e>>
        ELSE LET pts == SortedSeq({b \in B : e.key <= b /\ b <= e.key + e.length})
             IN [q \in 1..(Len(pts) - 1) |-> RemoveRange(pts[q], pts[q + 1] - pts[q])]
  IN FlatSeq([j \in 1..Len(d) |-> Cut(d[j])])

\* make_chunks: [j, k, d0, d1] for consecutive boundaries; entries of a side with key = j belong to the chunk at j
AtKey(d, j) == SelectSeq(d, LAMBDA e : e.key = j)
Chunks(n, ld, rd) ==
  LET bs == SortedSeq(BoundarySet(n, ld, rd))
      sl == SplitOnBoundaries(ld, BoundarySet(n, ld, rd))
      sr == SplitOnBoundaries(rd, BoundarySet(n, ld, rd))
      Ch(i) == [j |-> bs[i], k |-> IF i < Len(bs) THEN bs[i + 1] ELSE bs[i],
                d0 |-> AtKey(sl, bs[i]), d1 |-> AtKey(sr, bs[i])]
  IN SelectSeq([i \in 1..Len(bs) |-> Ch(i)], LAMBDA c : c.j < c.k \/ Len(c.d0) > 0 \/ Len(c.d1) > 0)

TypeName(d) ==      \* "", "A", "R", "AR" (also "P"... not for atoms)
  LET a == SelectSeq(d, LAMBDA e : e.op = "addrange")
      p == SelectSeq(d, LAMBDA e : e.op # "addrange")
  IN <<Len(a), IF Len(p) = 0 THEN "" ELSE IF p[1].op = "removerange" THEN "R" ELSE "P", Len(p)>>

(***************************************************************************)
(* decisions (MergeDecisionBuilder without strategy)                       *)
(***************************************************************************)
Dec(action, conflict, ld, lnull, rd, rnull) ==
  [common_path |-> <<>>, path_ok |-> TRUE, conflict |-> conflict, conflict_ok |-> TRUE, action |-> action,
   local_diff |-> ld, local_null |-> lnull, remote_diff |-> rd, remote_null |-> rnull,
   custom_diff |-> <<>>, custom_null |-> TRUE, similar |-> <<>>, similar_null |-> TRUE, extra |-> <<>>,
   strat |-> ""]          \* the builder's internal "strategy" field (removed by validated())

OneSided(d0, d1)  == IF Len(d0) > 0 THEN Dec("local", FALSE, d0, FALSE, d1, FALSE) ELSE Dec("remote", FALSE, d0, FALSE, d1, FALSE)
Agreement(d0, d1) == Dec("either", FALSE, d0, FALSE, d1, FALSE)
Conflict(d0, d1)  == Dec("base", TRUE, d0, FALSE, d1, FALSE)

(***************************************************************************)
(* strategies (utils.Strategies, MergeDecisionBuilder.tryresolve/conflict, *)
(* strategies.resolve_strategy_generic / resolve_conflicted_decisions_..)  *)
(***************************************************************************)
NoStrat == [l |-> "", i |-> "", k |-> "", t |-> {}]
UseS == {"use-base", "use-local", "use-remote"}
SideOf(s) == CASE s = "use-base" -> "base" [] s = "use-local" -> "local" [] OTHER -> "remote"
\* tryresolve: the action a leaf strategy stands for ("" = not resolvable here: remove, mergetool, inline-*, ...)
TryAction(s) == CASE s \in UseS -> SideOf(s)
                  [] s = "union" -> "local_then_remote"
                  [] s = "clear" -> "clear"
                  [] s = "take-max" -> "take_max"
                  [] OTHER -> ""
Resolved(a, d0, d1, s) == [Dec(a, FALSE, d0, FALSE, d1, FALSE) EXCEPT !.strat = s]
\* MergeDecisionBuilder.conflict(path, ld, rd, strategy)
ConflictS(d0, d1, s) == IF TryAction(s) = "" THEN Conflict(d0, d1) ELSE Resolved(TryAction(s), d0, d1, s)
SwapStrat(s) == CASE s = "use-local" -> "use-remote" [] s = "use-remote" -> "use-local" [] OTHER -> s
SwapS(s) == [s EXCEPT !.l = SwapStrat(@), !.i = SwapStrat(@), !.k = SwapStrat(@)]

\* entry-wise structural equality of two diffs (DiffEntry.__eq__)
RECURSIVE EntryEq(_, _)
EntryEq(e, f) ==
  /\ e.op = f.op /\ e.kt = f.kt /\ e.key = f.key
  /\ CASE e.op = "removerange" -> e.length = f.length
        [] e.op = "addrange" -> Eq(e.valuelist, f.valuelist)
        [] e.op \in {"add", "replace"} -> Eq(e.value, f.value)
        [] e.op = "patch" -> Len(e.diff) = Len(f.diff) /\ \A j \in 1..Len(e.diff) : EntryEq(e.diff[j], f.diff[j])
        [] OTHER -> TRUE
DiffEq(d0, d1) == Len(d0) = Len(d1) /\ \A j \in 1..Len(d0) : EntryEq(d0[j], d1[j])

\* add_decision -> ensure_common_path: while every non-empty diff of the decision is a single patch entry on one
\* key, the key moves into the path and the inner diffs take their place (an empty diff becomes None)
RECURSIVE PushOut(_)
PushOut(dec) ==
  LET l == dec.local_diff
      r == dec.remote_diff
      ne == (IF Len(l) > 0 THEN {l} ELSE {}) \cup (IF Len(r) > 0 THEN {r} ELSE {})
      poppable == /\ ne # {}
                  /\ \A x \in ne : Len(x) = 1 /\ x[1].op = "patch"
                  /\ \A x, y \in ne : x[1].kt = y[1].kt /\ x[1].key = y[1].key
  IN IF ~poppable THEN dec
     ELSE LET e == (CHOOSE x \in ne : TRUE)[1]
              step == [k |-> e.kt, s |-> IF e.kt = "s" THEN e.key ELSE "", i |-> IF e.kt = "i" THEN e.key ELSE 0]
          IN PushOut([dec EXCEPT !.common_path = @ \o <<step>>,
                                 !.local_diff = IF Len(l) > 0 THEN l[1].diff ELSE <<>>, !.local_null = (Len(l) = 0),
                                 !.remote_diff = IF Len(r) > 0 THEN r[1].diff ELSE <<>>, !.remote_null = (Len(r) = 0)])
ItemPath(key) == << [k |-> "i", s |-> "", i |-> key] >>
At(p, ds) == [j \in 1..Len(ds) |-> [ds[j] EXCEPT !.common_path = p \o @]]

(***************************************************************************)
(* _split_addrange: both sides insert at key; align the inserted values    *)
(* with the differ itself                                                  *)
(***************************************************************************)
SplitAddrange(key, lv, rv, is) ==
  LET idiff == ListDiff(lv, rv)
      n == Len(idiff)
      RECURSIVE Go(_, _, _)
      \* i: position in idiff, taken: items of lv consumed, acc: decisions
      Go(i, taken, acc) ==
        IF i > n
        THEN IF taken < Len(lv)
             THEN Append(acc, Agreement(<<AddRange(key, SubSeq(lv, taken + 1, Len(lv)))>>,
                                        <<AddRange(key, SubSeq(lv, taken + 1, Len(lv)))>>))
             ELSE acc
        ELSE
          LET d == idiff[i]
              acc1 == IF taken < d.key
                      THEN Append(acc, Agreement(<<AddRange(key, SubSeq(lv, taken + 1, d.key))>>,
                                                 <<AddRange(key, SubSeq(lv, taken + 1, d.key))>>))
                      ELSE acc
              tk == IF taken < d.key THEN d.key ELSE taken
          IN IF i + 1 <= n /\ idiff[i + 1].op = "removerange" /\ idiff[i + 1].key = d.key
             THEN \* a dissimilar sub-sequence on both sides: conflicted insertion
                  LET len == idiff[i + 1].length IN
                  Go(i + 2, tk + len,
                     Append(acc1, ConflictS(<<AddRange(key, SubSeq(lv, d.key + 1, d.key + len))>>,
                                            <<AddRange(key, d.valuelist.e)>>, is)))
             ELSE IF d.op = "removerange"
             THEN Go(i + 1, tk + d.length,
                     Append(acc1, Dec("local", FALSE, <<AddRange(key, SubSeq(lv, d.key + 1, d.key + d.length))>>, FALSE, <<>>, FALSE)))
             ELSE Go(i + 1, tk,
                     Append(acc1, Dec("remote", FALSE, <<>>, TRUE, <<AddRange(key, d.valuelist.e)>>, FALSE)))
  IN Go(1, 0, <<>>)

HasConf(ds) == \E j \in 1..Len(ds) : ds[j].conflict

\* resolve_strategy_generic: use-* turns every conflicted decision not yet marked with an applied strategy
GenericResolve(ds, s) ==
  IF s \in UseS /\ HasConf(ds)
  THEN [j \in 1..Len(ds) |-> IF ds[j].conflict /\ ds[j].strat = ""
                              THEN [ds[j] EXCEPT !.action = SideOf(s), !.conflict = FALSE] ELSE ds[j]]
  ELSE ds

MergeConcurrentInserts(ld, rd, is) ==
  LET sub == SplitAddrange(ld[1].key, ld[1].valuelist.e, rd[1].valuelist.e, is)
      tl == SubSeq(ld, 2, Len(ld))
      tr == SubSeq(rd, 2, Len(rd))
  IN IF HasConf(sub) /\ (Len(ld) = 2 \/ Len(rd) = 2)
     THEN <<ConflictS(ld, rd, is)>>
     ELSE IF Len(ld) = 2 /\ Len(rd) = 2 THEN Append(sub, Agreement(tl, tr))
     ELSE IF Len(ld) = 2 \/ Len(rd) = 2 THEN Append(sub, OneSided(tl, tr))
     ELSE sub

(***************************************************************************)
(* _merge_dicts for objects of atomic values: ds the strategy of the dict,  *)
(* ks the strategy of its keys, T the transient keys                       *)
(***************************************************************************)
EntryOf(d, k) == LET idx == {j \in 1..Len(d) : d[j].key = k} IN
                 IF idx = {} THEN <<>> ELSE <<d[CHOOSE j \in idx : TRUE]>>
ObjEntryEq(e, f) == e.op = f.op /\ ("value" \in DOMAIN e => Eq(e.value, f.value))
ObjDecisionsS(ld, rd, ds, ks, T) ==
  LET Tr(e) == e.op # "patch" /\ e.key \in T       \* is_diff_all_transients([e]) for an entry on an atomic value
      One(k) ==          \* keys changed on exactly one side
        LET l == EntryOf(ld, k) r == EntryOf(rd, k) IN
        IF Len(l) + Len(r) # 1 THEN <<>>
        ELSE IF Len(l) = 1 THEN <<Dec("local", FALSE, l, FALSE, <<>>, TRUE)>>
        ELSE <<Dec("remote", FALSE, <<>>, TRUE, r, FALSE)>>
      Two(k) ==          \* keys changed on both sides
        LET l == EntryOf(ld, k) r == EntryOf(rd, k) IN
        IF Len(l) = 0 \/ Len(r) = 0 THEN <<>>
        ELSE IF l[1].op = "remove" /\ r[1].op = "remove" THEN <<Agreement(l, r)>>
        \* one side deletes, the other only changes transient data: the deletion is picked, no conflict
        ELSE IF l[1].op = "remove" /\ Tr(r[1]) THEN <<Dec("local", FALSE, l, FALSE, r, FALSE)>>
        ELSE IF r[1].op = "remove" /\ Tr(l[1]) THEN <<Dec("remote", FALSE, l, FALSE, r, FALSE)>>
        ELSE IF l[1].op = "remove" \/ r[1].op = "remove" THEN <<ConflictS(l, r, ks)>>
        ELSE IF l[1].op # r[1].op THEN <<ConflictS(l, r, ks)>>
        ELSE IF ObjEntryEq(l[1], r[1]) THEN <<Agreement(l, r)>>
        ELSE <<ConflictS(l, r, ks)>>
      all == FlatSeq([j \in 1..Len(KS) |-> One(KS[j])]) \o FlatSeq([j \in 1..Len(KS) |-> Two(KS[j])])
  \* resolve_conflicted_decisions_dict (record-conflict / inline-attachments are notebook strategies, not modelled;
  \* mergetool and the empty strategy leave the conflicts open)
  IN GenericResolve(all, ds)
ObjDecisions(ld, rd) == ObjDecisionsS(ld, rd, "", "", {})

(***************************************************************************)
(* the chunk-type switch of _merge_lists (no strategies, no transients)    *)
(***************************************************************************)
\* P/P, P/R, R/P with or without prior insertions
AllTransients(d, T) == \A j \in 1..Len(d) : d[j].kt = "s" /\ d[j].op # "patch" /\ d[j].key \in T
PatchArms(key, a0, p0, a1, p1, s) ==
  LET pre == IF Len(a0) > 0 /\ Len(a1) > 0 THEN MergeConcurrentInserts(a0, a1, s.i)
             ELSE IF Len(a0) > 0 \/ Len(a1) > 0 THEN <<OneSided(a0, a1)>> ELSE <<>>
      post == IF DiffEq(p0, p1) THEN <<Agreement(p0, p1)>>
              ELSE IF p0[1].op = "patch" /\ p1[1].op = "patch"
                   THEN IF Kind = "strings"
                        \* _merge -> _merge_strings re-entered for one line: the line is not merged character by
                        \* character but marked as conflicted (a decision on the path of the line)
                        \* (the strategy of the STRING decides: strategies.get(star_path(path[:-1])))
                        THEN At(ItemPath(key), <<ConflictS(p0[1].diff, p1[1].diff, s.l)>>)
                        \* _merge(base[key], ...) -> _merge_dicts: the item's strategy "/*" is the strategy of that dict
                        ELSE At(ItemPath(key), ObjDecisionsS(p0[1].diff, p1[1].diff, s.i, s.k, s.t))
                   ELSE \* patch of an item the other side removes
                        LET thediff == IF p0[1].op = "patch" THEN p0[1].diff ELSE p1[1].diff
                            istr == AllTransients(thediff, s.t)
                        IN IF p0[1].op = "removerange" /\ istr THEN <<Dec("local", FALSE, p0, FALSE, p1, FALSE)>>
                           ELSE IF p1[1].op = "removerange" /\ istr THEN <<Dec("remote", FALSE, p0, FALSE, p1, FALSE)>>
                           ELSE IF s.l \in UseS THEN <<Dec(SideOf(s.l), FALSE, p0, FALSE, p1, FALSE)>>
                           ELSE <<ConflictS(p0, p1, s.i)>>
  IN pre \o post

ChunkDecisions(c, s) ==
  LET d0 == c.d0
      d1 == c.d1
      a0 == SelectSeq(d0, LAMBDA e : e.op = "addrange")
      p0 == SelectSeq(d0, LAMBDA e : e.op # "addrange")
      a1 == SelectSeq(d1, LAMBDA e : e.op = "addrange")
      p1 == SelectSeq(d1, LAMBDA e : e.op # "addrange")
      PN(p) == IF Len(p) = 0 THEN "" ELSE IF p[1].op = "removerange" THEN "R" ELSE "P"
      AN(a) == IF Len(a) = 0 THEN "" ELSE "A"
      pct == PN(p0) \o "/" \o PN(p1)
      ct == AN(a0) \o PN(p0) \o "/" \o AN(a1) \o PN(p1)
  IN IF ct = "/" THEN <<>>
     ELSE IF Len(d0) = 0 \/ Len(d1) = 0 THEN <<OneSided(d0, d1)>>
     ELSE IF DiffEq(d0, d1) THEN <<Agreement(d0, d1)>>
     ELSE IF ct = "R/R" THEN <<[Conflict(d0, d1) EXCEPT !.action = "ERROR-R/R"]>>
     ELSE IF pct \in {"P/P", "P/R", "R/P"} THEN PatchArms(c.j, a0, p0, a1, p1, s)
     ELSE IF ct \in {"A/P", "A/R"}          \* insert before an item the other side patches / removes
          THEN IF TryAction(s.i) # "" THEN <<Resolved(TryAction(s.i), d0, d1, s.i)>>
               ELSE <<Dec("local_then_remote", TRUE, d0, FALSE, d1, FALSE)>>
     ELSE IF ct \in {"P/A", "R/A"}
          THEN IF TryAction(s.i) # "" THEN <<Resolved(TryAction(s.i), d0, d1, s.i)>>
               ELSE <<Dec("remote_then_local", TRUE, d0, FALSE, d1, FALSE)>>
     ELSE IF ct \in {"A/AP", "AP/A"} THEN Append(MergeConcurrentInserts(a0, a1, s.i), OneSided(p0, p1))
     ELSE IF ct \in {"AR/R", "R/AR"} THEN <<OneSided(a0, a1), Agreement(p0, p1)>>
     ELSE IF ct \in {"AR/A", "A/AR", "A/A", "AR/AR"} THEN MergeConcurrentInserts(d0, d1, s.i)
     ELSE <<[Conflict(d0, d1) EXCEPT !.action = "ERROR-unhandled"]>>

\* MergeDecisionBuilder.validated: stable sort, item paths by ascending index, enclosing path last
Validated(n, ds) ==
  FlatSeq([k \in 1..n |-> SelectSeq(ds, LAMBDA x : Len(x.common_path) > 0 /\ x.common_path[1].i = k - 1)])
  \o SelectSeq(ds, LAMBDA x : Len(x.common_path) = 0)

\* strategies.combine_patches: one patch per key (recursively), stable sort by (key, not an insertion)
RECURSIVE CombinePatches(_)
CombinePatches(d) ==
  LET n == Len(d)
      Same(x, y) == x.kt = y.kt /\ x.key = y.key
      FirstP(j) == \A g \in 1..(j - 1) : ~(d[g].op = "patch" /\ Same(d[g], d[j]))
      RECURSIVE Coll(_, _)
      Coll(j, g) == IF g > n THEN <<>>
                    ELSE (IF d[g].op = "patch" /\ Same(d[g], d[j]) THEN d[g].diff ELSE <<>>) \o Coll(j, g + 1)
      New(j) == IF d[j].op # "patch" THEN <<d[j]>>
                ELSE IF FirstP(j) THEN <<[d[j] EXCEPT !.diff = CombinePatches(Coll(j, 1))]>> ELSE <<>>
      flat == FlatSeq([j \in 1..n |-> New(j)])
      Rank(e) == IF e.op = "addrange" THEN 0 ELSE 1
      KIdx(k) == CHOOSE j \in 1..Len(KS) : KS[j] = k           \* string keys: the universe's keys in sorted order
      Before(e, f) == IF e.kt = "s" THEN KIdx(e.key) < KIdx(f.key)
                      ELSE e.key < f.key \/ (e.key = f.key /\ Rank(e) < Rank(f))      \* strictly smaller sort key
      RECURSIVE Ins(_, _)
      Ins(q, e) == IF Len(q) = 0 THEN <<e>>
                   ELSE IF Before(e, q[Len(q)]) THEN Append(Ins(SubSeq(q, 1, Len(q) - 1), e), q[Len(q)])
                   ELSE Append(q, e)
      RECURSIVE Sort(_, _)
      Sort(j, acc) == IF j > Len(flat) THEN acc ELSE Sort(j + 1, Ins(acc, flat[j]))
  IN Sort(1, <<>>)

\* strategy clear-all on a list: every decision is dropped, one custom decision removes the whole range; the diffs of
\* the two sides are collected (collect_diffs: adjust_patch_level + combine_patches)
ClearAllDecision(n, ds) ==
  LET Lift(p, d) == IF Len(d) = 0 THEN <<>> ELSE PushPath(p, d)
      L == CombinePatches(FlatSeq([j \in 1..Len(ds) |-> Lift(ds[j].common_path, ds[j].local_diff)]))
      R == CombinePatches(FlatSeq([j \in 1..Len(ds) |-> Lift(ds[j].common_path, ds[j].remote_diff)]))
  IN << [Dec("custom", FALSE, L, FALSE, R, FALSE) EXCEPT !.custom_diff = <<RemoveRange(0, n)>>, !.custom_null = FALSE,
                                                         !.strat = "clear-all"] >>

\* resolve_conflicted_decisions_list (inline-outputs / inline-cells / remove are notebook strategies, not modelled)
ListResolve(n, ds, ls) ==
  IF ls \in {"", "mergetool"} \/ ~HasConf(ds) THEN ds
  ELSE IF ls = "union"
       \* not applied to sub-decisions on objects (the items of the nested universe)
       THEN [j \in 1..Len(ds) |-> IF ds[j].conflict /\ ~(Kind = "nested" /\ Len(ds[j].common_path) > 0)
                                   THEN [ds[j] EXCEPT !.action = "local_then_remote", !.conflict = FALSE] ELSE ds[j]]
  ELSE IF ls = "clear-all" THEN ClearAllDecision(n, ds)
  ELSE GenericResolve(ds, ls)

Decisions(b, ld, rd, s) ==
  LET cs == Chunks(Len(b), ld, rd)
      raw == FlatSeq([i \in 1..Len(cs) |-> ChunkDecisions(cs[i], s)])
      pushed == [j \in 1..Len(raw) |-> PushOut(raw[j])]
      \* _merge_lists ends with the list's strategy; _merge_strings then applies the string's (the same path here);
      \* decide_merge_with_diff finally applies the root strategy with resolve_strategy_generic
      lr == ListResolve(Len(b), pushed, s.l)
  IN Validated(Len(b), GenericResolve(GenericResolve(lr, s.l), s.l))

(***************************************************************************)
(* the state machine                                                       *)
(***************************************************************************)
IsLists == Kind = "lists"
IsNested == Kind = "nested" \/ Kind = "strings"      \* the diffs are inputs
IsStrings == Kind = "strings"
IsSeq == IsLists \/ IsNested
\* base is a sequence of items / lines; local and remote are the payload of the patched document
Doc(x) == IF IsStrings THEN Str(x) ELSE IF IsSeq THEN List(x) ELSE Obj(x)
DocB == IF IsStrings THEN Str(FlatSeq(base)) ELSE Doc(base)
DiffOf(x, y) == IF IsLists THEN ListDiff(x, y) ELSE ObjDiff(x, y, KS)
\* objects: the root strategy is the dict's strategy (applied by _merge_dicts and again at the root)
DecisionsOf(b, ld, rd, s) == IF IsSeq THEN Decisions(b, ld, rd, s)
                             ELSE GenericResolve(ObjDecisionsS(ld, rd, s.l, s.k, s.t), s.l)

(***************************************************************************)
(* the strategy configurations explored (StratMode).  Only configurations  *)
(* that make sense for the kind of document: list strategies on lists,     *)
(* leaf strategies on the keys of objects, the transient keys of objects.  *)
(* ("fail" raises by design; inline-*, record-conflict and remove on lists *)
(* are notebook strategies outside this transcription.)                    *)
(***************************************************************************)
Cfg(l, i, k, t) == [l |-> l, i |-> i, k |-> k, t |-> t]
StratU ==
  IF StratMode = "none" THEN {NoStrat}
  ELSE LET all == StratMode = "all" IN
  CASE IsLists ->
         {Cfg(l, i, "", {}) : l \in {"", "mergetool", "union", "clear-all"} \cup UseS,
                               i \in IF all THEN {"", "union"} \cup UseS ELSE {"", "use-local"}}
    [] IsStrings ->
         {Cfg(l, "", "", {}) : l \in {"", "mergetool"} \cup UseS}
    [] IsNested ->
         {Cfg(l, i, k, t) : l \in IF all THEN {"", "union", "clear-all"} \cup UseS ELSE {"", "use-local", "clear-all"},
                            i \in IF all THEN {"", "use-remote", "use-base"} ELSE {"", "use-remote"},
                            k \in IF all THEN {"", "clear", "use-local"} ELSE {"", "clear"},
                            t \in IF all THEN SUBSET {"a", "b"} ELSE {{}, {"b"}}}
    [] OTHER ->
         {Cfg(l, "", k, t) : l \in IF all THEN {"", "mergetool"} \cup UseS ELSE {"", "use-base", "use-remote"},
                             k \in {"", "clear", "take-max", "remove"} \cup UseS,
                             t \in IF all THEN SUBSET {"a", "b"} ELSE {{}, {"a"}}}

Init == /\ CASE IsLists  -> /\ base \in ListU /\ local \in ListU /\ remote \in ListU
                            /\ ldv = ListDiff(base, local) /\ rdv = ListDiff(base, remote)
             [] IsStrings -> /\ base \in StrLinesU
                             /\ ldv \in StringLineDiffs(base) /\ rdv \in StringLineDiffs(base)
                             /\ local = Patch(Str(FlatSeq(base)), ldv).c /\ remote = Patch(Str(FlatSeq(base)), rdv).c
             [] IsNested -> /\ base \in NestU
                            /\ ldv \in NestedDiffs(base) /\ rdv \in NestedDiffs(base)
                            /\ local = Patch(List(base), ldv).e /\ remote = Patch(List(base), rdv).e
             [] OTHER    -> /\ base \in ObjU /\ local \in ObjU /\ remote \in ObjU
                            /\ ldv = ObjDiff(base, local, KS) /\ rdv = ObjDiff(base, remote, KS)
        /\ D = <<>> /\ merged = Null /\ phase = "input"
        /\ st \in StratU

Decide == /\ phase = "input"
          /\ LET ds == DecisionsOf(base, ldv, rdv, st)
                 r  == ApplyDecisions(DocB, ds)
             IN D' = ds /\ merged' = (IF r.ok THEN r.v ELSE [t |-> "x"])
          /\ phase' = "merged"
          /\ UNCHANGED <<base, local, remote, ldv, rdv, st>>
Next == Decide
Spec == Init /\ [][Next]_vars

Done == phase = "merged"
LD == ldv
RD == rdv
Swapped == DecisionsOf(base, RD, LD, SwapS(st))
\* the decisions with the strategy on "/" left out (conflicts it would resolve stay open), and with no strategy at all
\* (transients kept): what the strategy runs are compared with
DOpen == DecisionsOf(base, LD, RD, [st EXCEPT !.l = ""])
DPlain == DecisionsOf(base, LD, RD, [NoStrat EXCEPT !.t = st.t])
\* take-max only makes sense on numbers (nbdime: max() of a string and a number raises TypeError)
IsNatAtom(x) == x.t = "i"
\* clear / take-max read the base value of the key: a key both sides ADD with different values has none (nbdime:
\* KeyError; in notebooks these strategies sit on keys the format requires, which therefore exist in the base)
AddAdd == \E key \in {"a", "b"} :
             LET l == EntryOf(LD, key) r == EntryOf(RD, key) IN
             Len(l) = 1 /\ Len(r) = 1 /\ l[1].op = "add" /\ r[1].op = "add" /\ ~ObjEntryEq(l[1], r[1])
\* take-max reads the new value of both sides: a side that REMOVES the key has none (nbdime: KeyError 'value'; the
\* one key with this strategy, nbformat_minor, is required by the notebook format)
RemoveVsChange == \E key \in {"a", "b"} \ st.t :
             LET l == EntryOf(LD, key) r == EntryOf(RD, key) IN
             Len(l) = 1 /\ Len(r) = 1 /\ ((l[1].op = "remove") # (r[1].op = "remove"))
Sane == /\ (~IsSeq /\ st.k = "take-max") => \A x \in {base, local, remote} : \A key \in DOMAIN x : IsNatAtom(x[key])
        /\ (~IsSeq /\ st.k \in {"clear", "take-max"}) => ~AddAdd
        /\ (~IsSeq /\ st.k = "take-max") => ~RemoveVsChange
Union == st.l = "union" \/ st.i = "union"

DiffsCorrect ==
  /\ WellFormed(DocB, LD) /\ Eq(Patch(DocB, LD), Doc(local))
  /\ IsLists => Kept(Len(base), LD) = LLCS(base, local)
ChunkShapes ==
  IsLists => \A i \in 1..Len(Chunks(Len(base), LD, RD)) :
    LET c == Chunks(Len(base), LD, RD)[i] t0 == TypeName(c.d0) t1 == TypeName(c.d1) IN
      /\ t0[1] <= 1 /\ t0[3] <= 1 /\ t1[1] <= 1 /\ t1[3] <= 1
      /\ (t0[2] = "R" /\ t1[2] = "R") => DiffEq(SelectSeq(c.d0, LAMBDA e : e.op # "addrange"),
                                               SelectSeq(c.d1, LAMBDA e : e.op # "addrange"))
NoErrorArm == Done => \A j \in 1..Len(D) : D[j].action \notin {"ERROR-R/R", "ERROR-unhandled"}
Applies == (Done /\ Sane) => merged.t = DocB.t
AllLocal  == Done => AllSideIs(DocB, D, "local", Doc(local))
AllRemote == Done => AllSideIs(DocB, D, "remote", Doc(remote))
\* nested: the diffs are inputs, so "unchanged" / "the same change" are read off the diffs
Unchanged(x, d) == IF IsNested THEN Len(d) = 0 ELSE x = base
SameChange == IF IsNested THEN DiffEq(LD, RD) ELSE local = remote
Laws == (Done /\ Sane) =>
  /\ (Unchanged(local, LD) /\ Unchanged(remote, RD)) => Len(D) = 0
  /\ Unchanged(remote, RD) => (~HasConf(D) /\ Eq(merged, Doc(local)))
  /\ Unchanged(local, LD) => (~HasConf(D) /\ Eq(merged, Doc(remote)))
  /\ SameChange => (~HasConf(D) /\ Eq(merged, Doc(local)))
Symmetric == (Done /\ Sane /\ ~Union) =>          \* union (local then remote) is side dependent by design
  \/ (IsSeq /\ SamePositionInsert(LD, RD))
  \/ /\ HasConf(D) = HasConf(Swapped)
     /\ (~HasConf(D) => LET r == ApplyDecisions(DocB, Swapped) IN r.ok /\ Eq(r.v, merged))
\* C06 at design level: the two diffs touch positions that are at least one untouched item apart
Touched(d) == UNION {IF d[j].op = "removerange" THEN d[j].key..(d[j].key + d[j].length)
                     ELSE IF d[j].op = "patch" THEN d[j].key..(d[j].key + 1) ELSE {d[j].key} : j \in 1..Len(d)}
Separated(d0, d1) ==
  IF IsSeq THEN \A x \in Touched(d0), y \in Touched(d1) : x + 1 < y \/ y + 1 < x
  ELSE {d0[j].key : j \in 1..Len(d0)} \cap {d1[j].key : j \in 1..Len(d1)} = {}      \* different keys
DisjointClean == (Done /\ Separated(LD, RD)) =>
  /\ ~HasConf(D)
  /\ Eq(merged, Patch(DocB, Canonical(LD \o RD)))
EmbeddedAllWF == Done => AllEmbeddedWF(DocB, D)

\* strings (C07 / C10 at design level): every line of the merged string is a line of one of the three inputs.
\* StrProvenance is FALSE for the line based merge as nbdime implements it - TLC's counterexample is the recorded
\* finding KF-C10-1 / KF-C07-1: a base whose last line lacks its line end, one side appends a line (its diff also adds
\* the line end, as a change INSIDE the last line), the other side changes that last line differently: the change inside
\* the line is conflicted (base kept), the appended line is applied, the two are glued.  StrProvenanceModGlue excludes
\* exactly that shape (an unterminated last line of an input followed by an input line) and holds.
LinesOfStr(c) == LET ls == SplitLines(c, LineSeps) IN {ls[j] : j \in 1..Len(ls)}
InputLines == LinesOfStr(FlatSeq(base)) \cup LinesOfStr(local) \cup LinesOfStr(remote)
Unterminated == {ln \in InputLines : ln[Len(ln)] \notin LineSeps}
\* a differ never appends after an unterminated last line without also giving that line its end (such a diff glues the
\* appended text to the last line by itself); the line based notions below are about diffs a differ can produce
AppendsCleanly(d) ==
  LET n == Len(base)
      unterminated == n > 0 /\ base[n][Len(base[n])] \notin LineSeps
      appends == \E j \in 1..Len(d) : d[j].op = "addrange" /\ d[j].key = n
      ends == \E j \in 1..Len(d) : d[j].op = "patch" /\ d[j].key = n - 1 /\
                 \E i \in 1..Len(d[j].diff) : d[j].diff[i].op = "addrange" /\ d[j].diff[i].valuelist.c = <<10>>
  IN (unterminated /\ appends) => ends
StrCase == Done /\ IsStrings /\ merged.t = "s" /\ AppendsCleanly(LD) /\ AppendsCleanly(RD)
StrProvenance == StrCase => LinesOfStr(merged.c) \subseteq InputLines
StrProvenanceModGlue == StrCase =>
  \A ln \in LinesOfStr(merged.c) :
     \/ ln \in InputLines
     \/ \E u \in Unterminated, t \in InputLines : ln = u \o t
     \/ \E u \in Unterminated, v \in Unterminated, t \in InputLines : ln = u \o v \o t

(***************************************************************************)
(* strategies at design level (C10, and "under any strategy" of C05/C09)   *)
(***************************************************************************)
SameDecisions(X, Y) == Len(X) = Len(Y) /\ \A j \in 1..Len(X) :
   /\ X[j].common_path = Y[j].common_path /\ X[j].action = Y[j].action /\ X[j].conflict = Y[j].conflict
   /\ DiffEq(X[j].local_diff, Y[j].local_diff) /\ DiffEq(X[j].remote_diff, Y[j].remote_diff)
\* C10: a use-* strategy on the document leaves nothing open ...
UseSideResolved == (Done /\ Sane /\ st.l \in UseS) => ~HasConf(D)
\* ... and gives what resolving every open conflict to that side gives
\* (no second use-* strategy on the items: where the list's and the items' strategies name different sides the
\* patch-versus-delete arm follows the list's, every other arm the items' - no command line produces that)
UseSideEquiv == (Done /\ Sane /\ st.l \in UseS /\ st.i \notin UseS) =>
  LET r == ApplyDecisions(DocB, ResolveAll(DOpen, SideOf(st.l))) IN r.ok /\ Eq(r.v, merged)
\* a strategy acts on conflicts only: where the plain merge has none, the decisions are the plain ones
StrategyInert == (Done /\ Sane /\ ~HasConf(DPlain)) => SameDecisions(D, DPlain)
\* clear-all: nothing open; if anything was conflicted the list is emptied, and both sides stay recoverable (AllLocal)
ClearAllClears == (Done /\ IsSeq /\ st.l = "clear-all") =>
  /\ ~HasConf(D)
  /\ HasConf(DOpen) => Eq(merged, Doc(<<>>))
\* union on a list of atoms: nothing open, and every item either side inserted is in the result
InsertedVals(d) == UNION {IF d[j].op = "addrange" THEN {d[j].valuelist.e[q] : q \in 1..Len(d[j].valuelist.e)} ELSE {}
                          : j \in 1..Len(d)}
UnionKeepsBoth == (Done /\ IsLists /\ st.l = "union" /\ st.i \in {"", "union"}) =>
  /\ ~HasConf(D)
  /\ merged.t = "l" /\ (InsertedVals(LD) \cup InsertedVals(RD)) \subseteq {merged.e[q] : q \in 1..Len(merged.e)}
\* a deletion wins over a change of transient data, silently
TransientYields == (Done /\ Sane /\ ~IsSeq) =>
  \A key \in st.t :
     LET l == EntryOf(LD, key) r == EntryOf(RD, key) IN
     (Len(l) = 1 /\ Len(r) = 1 /\ ((l[1].op = "remove") # (r[1].op = "remove"))) =>
        /\ merged.t = "o" /\ key \notin DOMAIN merged.m
        /\ \A j \in 1..Len(D) : D[j].conflict => \A e \in {D[j].local_diff, D[j].remote_diff} :
                                                  \A q \in 1..Len(e) : e[q].key # key

DecJson(dd) == [common_path |-> dd.common_path, action |-> dd.action, conflict |-> dd.conflict,
                local_diff |-> dd.local_diff, local_null |-> dd.local_null,
                remote_diff |-> dd.remote_diff, remote_null |-> dd.remote_null,
                custom_diff |-> dd.custom_diff, custom_null |-> dd.custom_null]
SetSeq(S) == SelectSeq(KS, LAMBDA key : key \in S)
\* with strategies only the cases a strategy can act on are printed (StrategyInert: elsewhere D is the plain D)
Emit == (EMIT /\ Done /\ Sane /\ ((st.l = "" /\ st.i = "" /\ st.k = "") \/ HasConf(DPlain))) =>
  PrintT("MERGE " \o ToJson([base |-> DocB, local |-> Doc(local), remote |-> Doc(remote), ld |-> LD, rd |-> RD,
                              D |-> [j \in 1..Len(D) |-> DecJson(D[j])], merged |-> merged,
                              st |-> [l |-> st.l, i |-> st.i, k |-> st.k, t |-> SetSeq(st.t)]]))
=============================================================================
