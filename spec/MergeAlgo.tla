------------------------------ MODULE MergeAlgo ------------------------------
(***************************************************************************)
(* Transcription of nbdime's three-way merge of LISTS OF ATOMIC ITEMS      *)
(* (merging/chunks.py: boundaries, splitting of removals, chunk assembly;  *)
(* merging/generic.py: the chunk-type switch of _merge_lists,              *)
(* _merge_concurrent_inserts and _split_addrange) without strategies, on   *)
(* top of the transcribed differ (SeqDiffAlgo) and the reference semantics *)
(* of decisions (MergeFormat).                                             *)
(*                                                                         *)
(* State machine: Init picks base, local, remote from a bounded universe;  *)
(* Decide computes the diffs, the decisions and the merged list.           *)
(* TLC checks at design level, for EVERY triple of the universe:           *)
(*   ChunkShapes     <= 1 insertion and <= 1 removal per side per chunk,   *)
(*                   removals of the two sides cover the same range        *)
(*   DiffsCorrect    the transcribed differ is well-formed, exact, optimal *)
(*   Applies         the decisions apply (MergeFormat!ApplyDecisions)      *)
(*   AllLocal/AllRemote  relabelling every decision reproduces that side   *)
(*   Laws            identity, one-sided adoption, agreement (C05)         *)
(*   Symmetric       same verdict / same result with roles swapped unless  *)
(*                   both sides insert at one position (C05)               *)
(*   DisjointClean   changes at separated positions never conflict and     *)
(*                   both are applied (C06)                                *)
(*   EmbeddedAllWF   every embedded diff is well-formed (C11)              *)
(* With EMIT every (base, local, remote, decisions, merged) is printed and *)
(* compared with what nbdime's decide_merge/apply_decisions return.        *)
(***************************************************************************)
EXTENDS MergeContract, SeqDiffAlgo, Json

CONSTANTS MaxLen, EMIT, Kind      \* Kind = "lists" | "objects"

VARIABLES base, local, remote, D, merged, phase
vars == <<base, local, remote, D, merged, phase>>

Atoms == {Int("1"), Int("2"), Str(<<120>>)}
RECURSIVE SeqsUpTo(_, _)
SeqsUpTo(S, n) == IF n = 0 THEN {<<>>}
                  ELSE LET P == SeqsUpTo(S, n - 1)
                       IN P \cup {Append(s, x) : s \in {q \in P : Len(q) = n - 1}, x \in S}
ListU == SeqsUpTo(Atoms, MaxLen)
KS == <<"a", "b">>                        \* the keys, in sorted order
ObjU == UNION {[K -> Atoms] : K \in SUBSET {KS[j] : j \in 1..Len(KS)}}

(***************************************************************************)
(* chunks.py                                                               *)
(***************************************************************************)
EntryEnds(e) == IF e.op = "removerange" THEN {e.key, e.key + e.length}
                ELSE IF e.op = "patch" THEN {e.key, e.key + 1} ELSE {e.key}
BoundarySet(n, ld, rd) ==
  {0, n} \cup UNION {EntryEnds(ld[j]) : j \in 1..Len(ld)} \cup UNION {EntryEnds(rd[j]) : j \in 1..Len(rd)}

SortedSeq(S) ==
  LET RECURSIVE E(_)
      E(X) == IF X = {} THEN <<>>
              ELSE LET m == CHOOSE x \in X : \A y \in X : x <= y IN <<m>> \o E(X \ {m})
  IN E(S)

\* split_diffs_on_boundaries: a removal is cut at every boundary strictly inside it
SplitOnBoundaries(d, B) ==
  LET Cut(e) ==
        IF e.op # "removerange" THEN <<e>>
        ELSE LET pts == SortedSeq({b \in B : e.key <= b /\ b <= e.key + e.length})
             IN [q \in 1..(Len(pts) - 1) |-> RemoveRange(pts[q], pts[q + 1] - pts[q])]
  IN FlatSeq([j \in 1..Len(d) |-> Cut(d[j])])

\* make_chunks: [j, k, d0, d1] for consecutive boundaries; entries of a side with key = j belong to the chunk at j
AtKey(d, j) == SelectSeq(d, LAMBDA e : e.key = j)
Chunks(n, ld, rd) ==
  LET bs == SortedSeq(BoundarySet(n, ld, rd))
      sl == SplitOnBoundaries(ld, BoundarySet(n, ld, rd))
      sr == SplitOnBoundaries(rd, BoundarySet(n, ld, rd))
      Ch(i) == [j |-> bs[i], k |-> IF i < Len(bs) THEN bs[i + 1] ELSE bs[i],
                d0 |-> AtKey(sl, bs[i]), d1 |-> AtKey(sr, bs[i])]
  IN SelectSeq([i \in 1..Len(bs) |-> Ch(i)], LAMBDA c : c.j < c.k \/ Len(c.d0) > 0 \/ Len(c.d1) > 0)

TypeName(d) ==      \* "", "A", "R", "AR" (also "P"... not for atoms)
  LET a == SelectSeq(d, LAMBDA e : e.op = "addrange")
      p == SelectSeq(d, LAMBDA e : e.op # "addrange")
  IN <<Len(a), IF Len(p) = 0 THEN "" ELSE IF p[1].op = "removerange" THEN "R" ELSE "P", Len(p)>>

(***************************************************************************)
(* decisions (MergeDecisionBuilder without strategy)                       *)
(***************************************************************************)
Dec(action, conflict, ld, lnull, rd, rnull) ==
  [common_path |-> <<>>, path_ok |-> TRUE, conflict |-> conflict, conflict_ok |-> TRUE, action |-> action,
   local_diff |-> ld, local_null |-> lnull, remote_diff |-> rd, remote_null |-> rnull,
   custom_diff |-> <<>>, custom_null |-> TRUE, similar |-> <<>>, similar_null |-> TRUE, extra |-> <<>>]

OneSided(d0, d1)  == IF Len(d0) > 0 THEN Dec("local", FALSE, d0, FALSE, d1, FALSE) ELSE Dec("remote", FALSE, d0, FALSE, d1, FALSE)
Agreement(d0, d1) == Dec("either", FALSE, d0, FALSE, d1, FALSE)
Conflict(d0, d1)  == Dec("base", TRUE, d0, FALSE, d1, FALSE)

\* entry-wise structural equality of two sequence diffs of atoms
EntryEq(e, f) == e.op = f.op /\ e.key = f.key /\
                 (IF e.op = "removerange" THEN e.length = f.length ELSE Eq(e.valuelist, f.valuelist))
DiffEq(d0, d1) == Len(d0) = Len(d1) /\ \A j \in 1..Len(d0) : EntryEq(d0[j], d1[j])

(***************************************************************************)
(* _split_addrange: both sides insert at key; align the inserted values    *)
(* with the differ itself                                                  *)
(***************************************************************************)
SplitAddrange(key, lv, rv) ==
  LET idiff == ListDiff(lv, rv)
      n == Len(idiff)
      RECURSIVE Go(_, _, _)
      \* i: position in idiff, taken: items of lv consumed, acc: decisions
      Go(i, taken, acc) ==
        IF i > n
        THEN IF taken < Len(lv)
             THEN Append(acc, Agreement(<<AddRange(key, SubSeq(lv, taken + 1, Len(lv)))>>,
                                        <<AddRange(key, SubSeq(lv, taken + 1, Len(lv)))>>))
             ELSE acc
        ELSE
          LET d == idiff[i]
              acc1 == IF taken < d.key
                      THEN Append(acc, Agreement(<<AddRange(key, SubSeq(lv, taken + 1, d.key))>>,
                                                 <<AddRange(key, SubSeq(lv, taken + 1, d.key))>>))
                      ELSE acc
              tk == IF taken < d.key THEN d.key ELSE taken
          IN IF i + 1 <= n /\ idiff[i + 1].op = "removerange" /\ idiff[i + 1].key = d.key
             THEN \* a dissimilar sub-sequence on both sides: conflicted insertion
                  LET len == idiff[i + 1].length IN
                  Go(i + 2, tk + len,
                     Append(acc1, Conflict(<<AddRange(key, SubSeq(lv, d.key + 1, d.key + len))>>,
                                           <<AddRange(key, d.valuelist.e)>>)))
             ELSE IF d.op = "removerange"
             THEN Go(i + 1, tk + d.length,
                     Append(acc1, Dec("local", FALSE, <<AddRange(key, SubSeq(lv, d.key + 1, d.key + d.length))>>, FALSE, <<>>, FALSE)))
             ELSE Go(i + 1, tk,
                     Append(acc1, Dec("remote", FALSE, <<>>, TRUE, <<AddRange(key, d.valuelist.e)>>, FALSE)))
  IN Go(1, 0, <<>>)

HasConf(ds) == \E j \in 1..Len(ds) : ds[j].conflict

MergeConcurrentInserts(ld, rd) ==
  LET sub == SplitAddrange(ld[1].key, ld[1].valuelist.e, rd[1].valuelist.e)
      tl == SubSeq(ld, 2, Len(ld))
      tr == SubSeq(rd, 2, Len(rd))
  IN IF HasConf(sub) /\ (Len(ld) = 2 \/ Len(rd) = 2)
     THEN <<Conflict(ld, rd)>>
     ELSE IF Len(ld) = 2 /\ Len(rd) = 2 THEN Append(sub, Agreement(tl, tr))
     ELSE IF Len(ld) = 2 \/ Len(rd) = 2 THEN Append(sub, OneSided(tl, tr))
     ELSE sub

(***************************************************************************)
(* the chunk-type switch of _merge_lists (atoms: no patch ops)             *)
(***************************************************************************)
ChunkDecisions(c) ==
  LET d0 == c.d0
      d1 == c.d1
      a0 == SelectSeq(d0, LAMBDA e : e.op = "addrange")
      p0 == SelectSeq(d0, LAMBDA e : e.op # "addrange")
      a1 == SelectSeq(d1, LAMBDA e : e.op = "addrange")
      p1 == SelectSeq(d1, LAMBDA e : e.op # "addrange")
      ct == <<Len(a0) > 0, Len(p0) > 0, Len(a1) > 0, Len(p1) > 0>>
  IN IF Len(d0) = 0 /\ Len(d1) = 0 THEN <<>>
     ELSE IF Len(d0) = 0 \/ Len(d1) = 0 THEN <<OneSided(d0, d1)>>
     ELSE IF DiffEq(d0, d1) THEN <<Agreement(d0, d1)>>
     ELSE IF ct = <<FALSE, TRUE, FALSE, TRUE>> THEN <<[Conflict(d0, d1) EXCEPT !.action = "ERROR-R/R"]>>
     ELSE IF ct = <<TRUE, FALSE, FALSE, TRUE>>          \* A/R: insert before an item the other side removes
          THEN <<Dec("local_then_remote", TRUE, d0, FALSE, d1, FALSE)>>
     ELSE IF ct = <<FALSE, TRUE, TRUE, FALSE>>          \* R/A
          THEN <<Dec("remote_then_local", TRUE, d0, FALSE, d1, FALSE)>>
     ELSE IF ct = <<TRUE, TRUE, FALSE, TRUE>> \/ ct = <<FALSE, TRUE, TRUE, TRUE>>     \* AR/R, R/AR
          THEN <<OneSided(a0, a1), Agreement(p0, p1)>>
     ELSE MergeConcurrentInserts(d0, d1)                 \* AR/A, A/AR, A/A, AR/AR

Decisions(b, ld, rd) ==
  LET cs == Chunks(Len(b), ld, rd) IN FlatSeq([i \in 1..Len(cs) |-> ChunkDecisions(cs[i])])

(***************************************************************************)
(* _merge_dicts for objects of atomic values (no strategies, no transients) *)
(***************************************************************************)
EntryOf(d, k) == LET idx == {j \in 1..Len(d) : d[j].key = k} IN
                 IF idx = {} THEN <<>> ELSE <<d[CHOOSE j \in idx : TRUE]>>
ObjEntryEq(e, f) == e.op = f.op /\ ("value" \in DOMAIN e => Eq(e.value, f.value))
ObjDecisions(ld, rd) ==
  LET One(k) ==          \* keys changed on exactly one side
        LET l == EntryOf(ld, k) r == EntryOf(rd, k) IN
        IF Len(l) + Len(r) # 1 THEN <<>>
        ELSE IF Len(l) = 1 THEN <<Dec("local", FALSE, l, FALSE, <<>>, TRUE)>>
        ELSE <<Dec("remote", FALSE, <<>>, TRUE, r, FALSE)>>
      Two(k) ==          \* keys changed on both sides
        LET l == EntryOf(ld, k) r == EntryOf(rd, k) IN
        IF Len(l) = 0 \/ Len(r) = 0 THEN <<>>
        ELSE IF l[1].op = "remove" /\ r[1].op = "remove" THEN <<Agreement(l, r)>>
        ELSE IF l[1].op = "remove" \/ r[1].op = "remove" THEN <<Conflict(l, r)>>
        ELSE IF l[1].op # r[1].op THEN <<Conflict(l, r)>>
        ELSE IF ObjEntryEq(l[1], r[1]) THEN <<Agreement(l, r)>>
        ELSE <<Conflict(l, r)>>
  IN FlatSeq([j \in 1..Len(KS) |-> One(KS[j])]) \o FlatSeq([j \in 1..Len(KS) |-> Two(KS[j])])

(***************************************************************************)
(* the state machine                                                       *)
(***************************************************************************)
IsLists == Kind = "lists"
Doc(x) == IF IsLists THEN List(x) ELSE Obj(x)
DiffOf(x, y) == IF IsLists THEN ListDiff(x, y) ELSE ObjDiff(x, y, KS)
DecisionsOf(b, ld, rd) == IF IsLists THEN Decisions(b, ld, rd) ELSE ObjDecisions(ld, rd)

Init == /\ IF IsLists THEN base \in ListU /\ local \in ListU /\ remote \in ListU
                     ELSE base \in ObjU /\ local \in ObjU /\ remote \in ObjU
        /\ D = <<>> /\ merged = Null /\ phase = "input"

Decide == /\ phase = "input"
          /\ LET ds == DecisionsOf(base, DiffOf(base, local), DiffOf(base, remote))
                 r  == ApplyDecisions(Doc(base), ds)
             IN D' = ds /\ merged' = (IF r.ok THEN r.v ELSE [t |-> "x"])
          /\ phase' = "merged"
          /\ UNCHANGED <<base, local, remote>>
Next == Decide
Spec == Init /\ [][Next]_vars

Done == phase = "merged"
LD == DiffOf(base, local)
RD == DiffOf(base, remote)
Swapped == DecisionsOf(base, RD, LD)

DiffsCorrect ==
  /\ WellFormed(Doc(base), LD) /\ Eq(Patch(Doc(base), LD), Doc(local))
  /\ IsLists => Kept(Len(base), LD) = LLCS(base, local)
ChunkShapes ==
  IsLists => \A i \in 1..Len(Chunks(Len(base), LD, RD)) :
    LET c == Chunks(Len(base), LD, RD)[i] t0 == TypeName(c.d0) t1 == TypeName(c.d1) IN
      /\ t0[1] <= 1 /\ t0[3] <= 1 /\ t1[1] <= 1 /\ t1[3] <= 1
      /\ (t0[2] = "R" /\ t1[2] = "R") => DiffEq(SelectSeq(c.d0, LAMBDA e : e.op # "addrange"),
                                               SelectSeq(c.d1, LAMBDA e : e.op # "addrange"))
NoErrorArm == Done => \A j \in 1..Len(D) : D[j].action # "ERROR-R/R"
Applies == Done => merged.t = Doc(base).t
AllLocal  == Done => AllSideIs(Doc(base), D, "local", Doc(local))
AllRemote == Done => AllSideIs(Doc(base), D, "remote", Doc(remote))
Laws == Done =>
  /\ (local = base /\ remote = base) => Len(D) = 0
  /\ (remote = base) => (~HasConf(D) /\ Eq(merged, Doc(local)))
  /\ (local = base) => (~HasConf(D) /\ Eq(merged, Doc(remote)))
  /\ (local = remote) => (~HasConf(D) /\ Eq(merged, Doc(local)))
Symmetric == Done =>
  \/ (IsLists /\ SamePositionInsert(LD, RD))
  \/ /\ HasConf(D) = HasConf(Swapped)
     /\ (~HasConf(D) => LET r == ApplyDecisions(Doc(base), Swapped) IN r.ok /\ Eq(r.v, merged))
\* C06 at design level: the two diffs touch positions that are at least one untouched item apart
Touched(d) == UNION {IF d[j].op = "removerange" THEN d[j].key..(d[j].key + d[j].length) ELSE {d[j].key} : j \in 1..Len(d)}
Separated(d0, d1) ==
  IF IsLists THEN \A x \in Touched(d0), y \in Touched(d1) : x + 1 < y \/ y + 1 < x
  ELSE {d0[j].key : j \in 1..Len(d0)} \cap {d1[j].key : j \in 1..Len(d1)} = {}      \* different keys
DisjointClean == (Done /\ Separated(LD, RD)) =>
  /\ ~HasConf(D)
  /\ Eq(merged, Patch(Doc(base), Canonical(LD \o RD)))
EmbeddedAllWF == Done => AllEmbeddedWF(Doc(base), D)

DecJson(dd) == [action |-> dd.action, conflict |-> dd.conflict, local_diff |-> dd.local_diff, local_null |-> dd.local_null,
                remote_diff |-> dd.remote_diff]
Emit == (EMIT /\ Done) =>
  PrintT("MERGE " \o ToJson([base |-> Doc(base), local |-> Doc(local), remote |-> Doc(remote),
                              D |-> [j \in 1..Len(D) |-> DecJson(D[j])], merged |-> merged]))
=============================================================================
