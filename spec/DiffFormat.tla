----------------------------- MODULE DiffFormat -----------------------------
(***************************************************************************)
(* Reference semantics of nbdime's documented diff format                  *)
(* (docs/source/diffing.rst, nbdime/diff_format.schema.json).              *)
(* Independent of nbdime's code: this is "an independent implementation   *)
(* of the documented format" in the sense of property C02.                 *)
(*                                                                         *)
(* A diff is a sequence of entries.  Encoded entry:                        *)
(*   [op |-> ..., kt |-> "s" | "i" | "x", key |-> string or 0-based int,   *)
(*    value |-> JSON value          (add, replace)                          *)
(*    valuelist |-> JSON list or JSON string   (addrange)                   *)
(*    length |-> Nat                (removerange)                           *)
(*    diff |-> nested diff          (patch)]                                *)
(* kt = "x" means the key was neither a string nor an integer.              *)
(*                                                                         *)
(* Strings are patched line-wise (lines = SplitLines with keepends): a     *)
(* string diff's keys are line numbers, addrange valuelists are lists of   *)
(* line strings, and a patch entry carries a character-level diff of that  *)
(* one line whose addrange valuelists are strings.                         *)
(***************************************************************************)
EXTENDS JsonDoc

CONSTANT LineSeps      \* set of code points treated as line separators

SeqOps == {"addrange", "removerange", "patch"}
ObjOps == {"add", "remove", "replace", "patch"}
AllOps == SeqOps \cup ObjOps

Fields(e) == DOMAIN e \ {"kt"}

(***************************************************************************)
(* SchemaOK: transcription of diff_format.schema.json (oneOf over six     *)
(* closed object shapes selected by op; required op and key).              *)
(***************************************************************************)
RECURSIVE SchemaOK(_)
EntrySchemaOK(e) ==
  /\ {"op", "key"} \subseteq Fields(e)
  /\ e.op \in AllOps
  /\ e.kt \in {"s", "i"}
  /\ CASE e.op = "add"         -> Fields(e) \subseteq {"op", "key", "value"}
       [] e.op = "remove"      -> Fields(e) \subseteq {"op", "key"}
       [] e.op = "replace"     -> Fields(e) \subseteq {"op", "key", "value"}
       [] e.op = "addrange"    -> /\ Fields(e) \subseteq {"op", "key", "valuelist"}
                                  /\ e.kt = "i"
                                  /\ ("valuelist" \in Fields(e) => e.valuelist.t \in {"l", "s"})
       [] e.op = "removerange" -> /\ Fields(e) \subseteq {"op", "key", "length"}
                                  /\ e.kt = "i"
       [] e.op = "patch"       -> /\ Fields(e) \subseteq {"op", "key", "diff"}
                                  /\ ("diff" \in Fields(e) => SchemaOK(e.diff))
SchemaOK(d) == \A j \in 1..Len(d) : EntrySchemaOK(d[j])

\* every embedded value is plain JSON (diff "survives a JSON round trip")
RECURSIVE DiffPlainJSON(_)
DiffPlainJSON(d) ==
  \A j \in 1..Len(d) :
    LET e == d[j] IN
      /\ e.kt \in {"s", "i"}
      /\ ("value" \in DOMAIN e => PlainJSON(e.value))
      /\ ("valuelist" \in DOMAIN e => PlainJSON(e.valuelist))
      /\ ("diff" \in DOMAIN e => DiffPlainJSON(e.diff))

(***************************************************************************)
(* Well-formedness relative to the base document (property C11).           *)
(* Only what C11 states: ordered by position, no overlap, within bounds,   *)
(* keys targeted once, add on absent / remove-replace-patch on present     *)
(* keys, patches only into containers and never empty.  (A removerange of  *)
(* length 0 or an addrange of no values is odd but not ruled out.)         *)
(***************************************************************************)
Covers(e) == e.op \in {"removerange", "patch"}
EndOf(e)  == IF e.op = "removerange" THEN e.key + e.length
             ELSE IF e.op = "patch" THEN e.key + 1 ELSE e.key

\* shape requirements of a sequence entry for a base sequence of length n
SeqEntryShape(n, e) ==
  /\ e.kt = "i"
  /\ e.op \in SeqOps
  /\ e.key \in 0..n
  /\ CASE e.op = "addrange"    -> "valuelist" \in DOMAIN e
       [] e.op = "removerange" -> "length" \in DOMAIN e /\ e.length >= 0 /\ e.key + e.length <= n
       [] e.op = "patch"       -> "diff" \in DOMAIN e /\ e.key < n /\ Len(e.diff) > 0

SeqOrderOK(d) ==
  /\ \A j \in 1..(Len(d) - 1) : d[j].key <= d[j+1].key
  /\ \A j, k \in 1..Len(d) :
        (j < k /\ Covers(d[j]) /\ Covers(d[k])) => EndOf(d[j]) <= d[k].key
  \* an insertion point may not lie strictly inside a removed/patched range
  /\ \A j, k \in 1..Len(d) :
        (d[j].op = "addrange" /\ Covers(d[k])) =>
            ~(d[k].key < d[j].key /\ d[j].key < EndOf(d[k]))

\* character level diff of one line (chars = code point sequence)
WellFormedChars(chars, d) ==
  /\ \A j \in 1..Len(d) :
        /\ SeqEntryShape(Len(chars), d[j])
        /\ d[j].op # "patch"                       \* cannot descend into a character
        /\ d[j].op = "addrange" => d[j].valuelist.t = "s"
  /\ SeqOrderOK(d)

RECURSIVE WellFormed(_, _)
WellFormedList(items, d) ==
  /\ \A j \in 1..Len(d) :
        /\ SeqEntryShape(Len(items), d[j])
        /\ d[j].op = "addrange" => d[j].valuelist.t = "l"
        /\ d[j].op = "patch" =>
              LET it == items[d[j].key + 1] IN IsContainer(it) /\ WellFormed(it, d[j].diff)
  /\ SeqOrderOK(d)

WellFormedString(c, d) ==
  LET lines == SplitLines(c, LineSeps) IN
  /\ \A j \in 1..Len(d) :
        /\ SeqEntryShape(Len(lines), d[j])
        /\ d[j].op = "addrange" =>
              /\ d[j].valuelist.t = "l"
              /\ \A i \in 1..Len(d[j].valuelist.e) : d[j].valuelist.e[i].t = "s"
        /\ d[j].op = "patch" => WellFormedChars(lines[d[j].key + 1], d[j].diff)
  /\ SeqOrderOK(d)

WellFormedObj(m, d) ==
  /\ \A j \in 1..Len(d) :
        LET e == d[j] IN
        /\ e.kt = "s"
        /\ e.op \in ObjOps
        /\ CASE e.op = "add"     -> "value" \in DOMAIN e /\ e.key \notin DOMAIN m
             [] e.op = "remove"  -> e.key \in DOMAIN m
             [] e.op = "replace" -> "value" \in DOMAIN e /\ e.key \in DOMAIN m
             [] e.op = "patch"   -> /\ "diff" \in DOMAIN e
                                    /\ e.key \in DOMAIN m
                                    /\ Len(e.diff) > 0
                                    /\ IsContainer(m[e.key])
                                    /\ WellFormed(m[e.key], e.diff)
  /\ \A j, k \in 1..Len(d) : (j # k /\ d[j].kt = "s" /\ d[k].kt = "s") => d[j].key # d[k].key

WellFormed(x, d) ==
  CASE x.t = "o" -> WellFormedObj(x.m, d)
    [] x.t = "l" -> WellFormedList(x.e, d)
    [] x.t = "s" -> WellFormedString(x.c, d)
    [] OTHER     -> FALSE

(***************************************************************************)
(* Patch: the meaning of a diff.  Defined for every WellFormed (x, d).     *)
(* PatchSeq is shared by lists, lines and characters.                      *)
(*   PI(item, subdiff)  patched item;  VL(e)  the inserted items.          *)
(***************************************************************************)
\* "addrange: insert new items BEFORE A[key]" (docs): insertions at a key take effect before a removal / patch of
\* the item at that key, whatever the order of the entries with that key; otherwise entries keep their order.
InsertionsFirst(d) ==
  LET Rank(e) == IF e.op = "addrange" THEN 0 ELSE 1
      Before(e, f) == e.key < f.key \/ (e.key = f.key /\ Rank(e) < Rank(f))
      RECURSIVE Ins(_, _)
      Ins(s, e) == IF Len(s) = 0 THEN <<e>>
                   ELSE IF Before(e, s[Len(s)]) THEN Append(Ins(SubSeq(s, 1, Len(s) - 1), e), s[Len(s)])
                   ELSE Append(s, e)
      RECURSIVE From(_, _)
      From(j, acc) == IF j > Len(d) THEN acc ELSE From(j + 1, Ins(acc, d[j]))
  IN IF \A j \in 1..(Len(d) - 1) : ~Before(d[j + 1], d[j]) THEN d ELSE From(1, <<>>)

PatchSeq(xs, d0, PI(_, _), VL(_)) ==
  LET d == InsertionsFirst(d0)
      RECURSIVE Go(_, _, _)
      Go(j, take, acc) ==
        IF j > Len(d) THEN acc \o SubSeqFrom(xs, take + 1)
        ELSE LET e   == d[j]
                 pre == IF e.key > take THEN SubSeq(xs, take + 1, e.key) ELSE <<>>
             IN CASE e.op = "addrange" ->
                        Go(j + 1, Max(take, e.key), acc \o pre \o VL(e))
                  [] e.op = "removerange" ->
                        Go(j + 1, Max(take, e.key + e.length), acc \o pre)
                  [] e.op = "patch" ->
                        Go(j + 1, Max(take, e.key + 1),
                           Append(acc \o pre, PI(xs[e.key + 1], e.diff)))
  IN Go(1, 0, <<>>)

CharPI(ch, sd) == ch                      \* never used: char diffs have no patch op
PatchChars(chars, d) == PatchSeq(chars, d, CharPI, LAMBDA e : e.valuelist.c)

RECURSIVE Patch(_, _)
PatchObj(m, d) ==
  LET removed == {d[j].key : j \in {i \in 1..Len(d) : d[i].op = "remove"}}
      added   == {d[j].key : j \in {i \in 1..Len(d) : d[i].op = "add"}}
      EntryFor(k) == d[CHOOSE j \in 1..Len(d) : d[j].key = k]
      touched == {d[j].key : j \in 1..Len(d)}
  IN [k \in (DOMAIN m \ removed) \cup added |->
        IF k \in touched
        THEN LET e == EntryFor(k) IN
             CASE e.op \in {"add", "replace"} -> e.value
               [] e.op = "patch" -> Patch(m[k], e.diff)
        ELSE m[k]]

PatchString(c, d) ==
  LET lines == SplitLines(c, LineSeps)
      newlines == PatchSeq(lines, d, PatchChars,
                           LAMBDA e : [i \in 1..Len(e.valuelist.e) |-> e.valuelist.e[i].c])
  IN FlatSeq(newlines)

Patch(x, d) ==
  IF Len(d) = 0 THEN x
  ELSE CASE x.t = "o" -> Obj(PatchObj(x.m, d))
         [] x.t = "l" -> List(PatchSeq(x.e, d, Patch, LAMBDA e : e.valuelist.e))
         [] x.t = "s" -> Str(PatchString(x.c, d))

(***************************************************************************)
(* Flatten: both implementations turn a line diff into a character diff   *)
(* before patching a string.  FlattenPatch is that route; the lemma       *)
(* FlattenPatch = PatchString on well-formed diffs is model-checked in     *)
(* DiffModel.                                                              *)
(***************************************************************************)
LineStart(lines, k) ==      \* 0-based char offset of 0-based line k (k may be Len(lines))
  LET RECURSIVE S(_)
      S(i) == IF i = 0 THEN 0 ELSE S(i - 1) + Len(lines[i])
  IN S(k)

Flatten(c, d) ==
  LET lines == SplitLines(c, LineSeps)
      One(e) ==
        CASE e.op = "addrange" ->
               << [op |-> "addrange", kt |-> "i", key |-> LineStart(lines, e.key),
                   valuelist |-> Str(FlatSeq([i \in 1..Len(e.valuelist.e) |-> e.valuelist.e[i].c]))] >>
          [] e.op = "removerange" ->
               << [op |-> "removerange", kt |-> "i", key |-> LineStart(lines, e.key),
                   length |-> LineStart(lines, e.key + e.length) - LineStart(lines, e.key)] >>
          [] e.op = "patch" ->
               [i \in 1..Len(e.diff) |->
                   [e.diff[i] EXCEPT !.key = @ + LineStart(lines, e.key)]]
  IN FlatSeq([j \in 1..Len(d) |-> One(d[j])])

FlattenPatch(c, d) == PatchChars(c, Flatten(c, d))

(***************************************************************************)
(* Size of a diff (number of entries, recursively): used for coverage.     *)
(***************************************************************************)
RECURSIVE DiffSize(_)
DiffSize(d) ==
  LET RECURSIVE Sum(_)
      Sum(j) == IF j = 0 THEN 0
                ELSE Sum(j - 1) + 1 + (IF d[j].op = "patch" /\ "diff" \in DOMAIN d[j]
                                       THEN DiffSize(d[j].diff) ELSE 0)
  IN Sum(Len(d))
=============================================================================
