----------------------------- MODULE FrameTrace ------------------------------
(***************************************************************************)
(* Frame conditions of the public library calls (C13): diff, patch, merge  *)
(* decision and application, and pretty-printing never modify the          *)
(* notebooks, diffs or decision lists passed in.                           *)
(* One NDJSON line per call:                                               *)
(*   fn        name of the function                                        *)
(*   before    the arguments as JSON values before the call                *)
(*   after     the same arguments re-read after the call                   *)
(*   scribbled the arguments re-read after every container reachable from  *)
(*             the RESULT has been modified                                *)
(*   result / again   the result, and the result of calling the function   *)
(*             once more with the same argument objects after that         *)
(*   raised    present if the call raised                                  *)
(* Frame condition: UNCHANGED args across the call; the result owns its    *)
(* containers (modifying it leaves args unchanged); hence recomputable.    *)
(***************************************************************************)
EXTENDS JsonDoc, Json, IOUtils

Trace == ndJsonDeserialize(IOEnv.TRACE_FILE)
VARIABLE i
Has(ev, f) == f \in DOMAIN ev

Deterministic == {"diff", "diff_notebooks", "patch", "patch_notebook", "decide_merge"}
SameArgs(x, y) == Len(x) = Len(y) /\ \A k \in 1..Len(x) : Eq(x[k], y[k])

Clauses(ev) ==
  IF Has(ev, "raised") THEN << <<"Completes", FALSE>> >>
  ELSE <<
    <<"Completes", TRUE>>,
    <<"ArgsUnchanged", SameArgs(ev.before, ev.after)>>,
    <<"ArgsUnchangedAfterResultMutation", Has(ev, "scribbled") => SameArgs(ev.before, ev.scribbled)>>,
    \* the same objects can be used again (equality of the two results is not required: conflict
    \* marker cells get fresh random ids on every merge)
    <<"Recomputable", Has(ev, "again") => ev.again.t # "x">>,
    \* ... and for the functions that draw no random ids the result is the same as before the first result was
    \* modified (a result that shares structure with a cache or with a module-level table would differ)
    <<"RecomputedSame", (Has(ev, "again") /\ Has(ev, "result") /\ ev.fn \in Deterministic) => Eq(ev.again, ev.result)>>
  >>

Report(ev) ==
  LET cs == Clauses(ev) IN
  \A k \in 1..Len(cs) : IF cs[k][2] THEN TRUE ELSE PrintT(<<"FAIL", ev.tid, cs[k][1]>>)

Init == i = 1
Next == /\ i <= Len(Trace)
        /\ Report(Trace[i]) = TRUE
        /\ i' = i + 1
Spec == Init /\ [][Next]_i
Accepted == TLCGet("stats").diameter = Len(Trace) + 1
=============================================================================
