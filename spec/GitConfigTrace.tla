--------------------------- MODULE GitConfigTrace ----------------------------
(***************************************************************************)
(* Trace specification for the git integration commands (C18).  One NDJSON *)
(* line per executed command against real git:                             *)
(*   cmd    [tool, enable, scope, dflt]                                    *)
(*   pre, post   projection of git's configuration files (both scopes)     *)
(*   again  TRUE if running the same command a second time changed a file  *)
(*   dups   more than one attributes line for one driver                   *)
(*   garbled  unrelated attributes content was altered                     *)
(* The observed transition must satisfy the property-level relation below  *)
(* (what C18 states); equality with the canonical function GitConfig!Apply *)
(* is reported as model drift only.                                        *)
(***************************************************************************)
EXTENDS GitConfig, IOUtils

Trace == ndJsonDeserialize(IOEnv.TRACE_FILE)
VARIABLE i

Targets(c, t) == c.tool = t \/ c.tool = "all"
Other(s) == IF s = "repo" THEN "global" ELSE "repo"

Clauses(ev) ==
  LET c == ev.cmd
      x == ev.pre[c.scope]
      y == ev.post[c.scope]
  IN <<
    <<"OtherScopeUntouched", ev.post[Other(c.scope)] = ev.pre[Other(c.scope)]>>,
    <<"ForeignUntouched",
        /\ y.foreign = x.foreign /\ y.aforeign = x.aforeign /\ (x.afile => y.afile) /\ ~ev.garbled
        /\ (x.gui = "other" /\ ~(c.enable /\ c.dflt /\ Targets(c, "difftool"))) => y.gui = "other"
        /\ (x.mtool = "other" /\ ~(c.enable /\ c.dflt /\ Targets(c, "mergetool"))) => y.mtool = "other">>,
    <<"EnableEstablishes",
        c.enable =>
          /\ Targets(c, "diffdriver") => (y.ddrv /\ y.afile /\ y.adiff)
          /\ Targets(c, "mergedriver") => (y.mdrv /\ y.afile /\ y.amerge)
          /\ Targets(c, "difftool") => (y.dtcmd /\ (c.dflt => y.gui = "nbdime"))
          /\ Targets(c, "mergetool") => (y.mtcmd /\ (c.dflt => y.mtool = "nbdime"))>>,
    <<"EnableAddsOnlyOwn",
        c.enable =>
          /\ (x.ddrv => y.ddrv) /\ (x.mdrv => y.mdrv) /\ (x.dtcmd => y.dtcmd) /\ (x.mtcmd => y.mtcmd)
          /\ (x.adiff => y.adiff) /\ (x.amerge => y.amerge)
          /\ (~Targets(c, "diffdriver") => (y.ddrv = x.ddrv /\ y.adiff = x.adiff))
          /\ (~Targets(c, "mergedriver") => (y.mdrv = x.mdrv /\ y.amerge = x.amerge))
          /\ (~Targets(c, "difftool") => (y.dtcmd = x.dtcmd /\ y.dprompt = x.dprompt /\ y.gui = x.gui))
          /\ (~Targets(c, "mergetool") => (y.mtcmd = x.mtcmd /\ y.mprompt = x.mprompt /\ y.mtool = x.mtool))
          /\ y.dprompt \in {x.dprompt, "false"} /\ y.mprompt \in {x.mprompt, "false"}
          /\ (y.gui # x.gui => (c.dflt /\ y.gui = "nbdime")) /\ (y.mtool # x.mtool => (c.dflt /\ y.mtool = "nbdime"))>>,
    <<"DisableUnroutes",
        (~c.enable) =>
          /\ Targets(c, "diffdriver") => ~y.ddrv
          /\ Targets(c, "mergedriver") => ~y.mdrv
          /\ Targets(c, "difftool") => y.gui # "nbdime"
          /\ Targets(c, "mergetool") => y.mtool # "nbdime">>,
    <<"DisableKeepsRest",
        (~c.enable) =>
          /\ y.afile = x.afile /\ y.adiff = x.adiff /\ y.amerge = x.amerge
          /\ y.dprompt = x.dprompt /\ y.mprompt = x.mprompt
          /\ (y.gui # x.gui => (x.gui = "nbdime" /\ y.gui = "unset" /\ Targets(c, "difftool")))
          /\ (y.mtool # x.mtool => (x.mtool = "nbdime" /\ y.mtool = "unset" /\ Targets(c, "mergetool")))
          /\ (~Targets(c, "diffdriver") => y.ddrv = x.ddrv) /\ (~Targets(c, "mergedriver") => y.mdrv = x.mdrv)>>,
    <<"Idempotent", ~ev.again>>,
    <<"OneLinePerDriver", ~ev.dups>>
  >>

Drift(ev) == ev.post # Apply(ev.cmd, ev.pre)

Report(ev) ==
  LET cs == Clauses(ev) IN
  /\ \A k \in 1..Len(cs) : IF cs[k][2] THEN TRUE ELSE PrintT(<<"FAIL", ev.tid, cs[k][1]>>)
  /\ IF Drift(ev) THEN PrintT(<<"DRIFT", ev.tid, "post-state differs from GitConfig!Apply">>) ELSE TRUE

TInit == i = 1 /\ cfg = <<>> /\ hist = <<>> /\ init0 = <<>>
TNext == /\ i <= Len(Trace)
         /\ Report(Trace[i]) = TRUE
         /\ i' = i + 1
         /\ UNCHANGED <<cfg, hist, init0>>
TSpec == TInit /\ [][TNext]_<<i, cfg, hist, init0>>
Accepted == TLCGet("stats").diameter = Len(Trace) + 1
=============================================================================
