----------------------------- MODULE OutputEdits -----------------------------
(***************************************************************************)
(* Environment model for the output lists of ONE code cell: what a base,   *)
(* a local and a remote version of the cell's outputs can look like when   *)
(* both sides re-run / edit the cell.  NotebookEdits replaces whole output *)
(* lists; this module varies the outputs one by one, which is where the    *)
(* output strategies of the merger (inline-outputs, remove, clear,         *)
(* clear-all, use-*, union) and the bundling of decisions by output index  *)
(* take their case distinctions.                                           *)
(*                                                                         *)
(* An abstract output is its kind: "stream" | "error" | "result"           *)
(* (execute_result) | "display" (display_data).  Per side, every base      *)
(* output gets one edit:                                                   *)
(*    keep     unchanged                                                   *)
(*    text     one line of the main text is edited (the output stays       *)
(*             "similar" for the differ), differently on the two sides     *)
(*    rewrite  the main text is rewritten entirely (a dissimilar output),  *)
(*             differently on the two sides                                *)
(*    textS    the main text is edited, identically on the two sides       *)
(*    name     stream: stdout -> stderr (the same change on both sides)    *)
(*    tb       error: a traceback line changes (side specific)             *)
(*    meta     result/display: a metadata key is added (side specific)     *)
(*    mime     result/display: the image/png payload changes (side spec.)  *)
(*    addmime  result/display: a mime type is added (side specific value)  *)
(*    ec       result: the execution count is bumped (side specific;       *)
(*             a transient change)                                         *)
(*    del      the output is deleted                                       *)
(* and the list as a whole one of: none | append | prepend (side specific  *)
(* new output) | appendS (the same new output on both sides).              *)
(*                                                                         *)
(* Behaviours: Init picks a base; Edit picks all edits at once, at most    *)
(* Bound(base) of them differing from keep / none.  Every reachable state  *)
(* with phase = "edited" is one (base, local, remote) triple; its          *)
(* per-output class (none / onesided / same / independent / conflict /     *)
(* delvs / deldel) is computed here and used by the harness to stratify    *)
(* samples.  TLC checks TypeOK, ClassTotal (every pair of edits has        *)
(* exactly one class) and Budget.                                          *)
(***************************************************************************)
EXTENDS Naturals, Sequences, FiniteSets, TLC, Json

CONSTANTS BaseIds,      \* which base templates
          MaxEdits2,    \* bound on the number of edits for bases with <= 2 outputs
          MaxEdits3,    \* ... for longer bases
          EMIT

VARIABLES bid, le, re, ll, rl, phase
vars == <<bid, le, re, ll, rl, phase>>

Bases == [ o1 |-> <<"display", "stream">>,
           o2 |-> <<"stream", "result">>,
           o3 |-> <<"result", "error", "stream">>,
           o4 |-> <<"display", "display", "stream">>,
           o5 |-> <<"result">>,
           o6 |-> <<"error", "display">> ]

Edits(kind) ==
  CASE kind = "stream"  -> {"keep", "text", "textS", "rewrite", "name", "del"}
    [] kind = "error"   -> {"keep", "text", "textS", "rewrite", "tb", "del"}
    [] kind = "result"  -> {"keep", "text", "textS", "rewrite", "meta", "mime", "addmime", "ec", "del"}
    [] kind = "display" -> {"keep", "text", "textS", "rewrite", "meta", "mime", "addmime", "del"}
ListEdits == {"none", "append", "prepend", "appendS"}

Kinds(b) == Bases[b]
N(b) == Len(Kinds(b))
Bound(b) == IF N(b) <= 2 THEN MaxEdits2 ELSE MaxEdits3

Count(b, l, r, x, y) ==
  Cardinality({j \in 1..N(b) : l[j] # "keep"}) + Cardinality({j \in 1..N(b) : r[j] # "keep"})
  + (IF x = "none" THEN 0 ELSE 1) + (IF y = "none" THEN 0 ELSE 1)

EditFns(b) == {f \in [1..N(b) -> UNION {Edits(Kinds(b)[j]) : j \in 1..N(b)}] :
                 \A j \in 1..N(b) : f[j] \in Edits(Kinds(b)[j])}

Init == /\ bid \in BaseIds
        /\ le = <<>> /\ re = <<>> /\ ll = "none" /\ rl = "none"
        /\ phase = "base"

Edit == /\ phase = "base"
        /\ \E l \in EditFns(bid), r \in EditFns(bid), x \in ListEdits, y \in ListEdits :
             /\ Count(bid, l, r, x, y) <= Bound(bid)
             /\ (x = "appendS") = (y = "appendS")         \* "the same new output" is a joint edit
             /\ le' = l /\ re' = r /\ ll' = x /\ rl' = y
        /\ phase' = "edited"
        /\ UNCHANGED bid

Next == Edit
Spec == Init /\ [][Next]_vars

(***************************************************************************)
(* classification of what the two sides did to one output                  *)
(***************************************************************************)
SameEdits == {"textS", "del", "name"}      \* identical on both sides when chosen by both
Class(l, r) ==
  IF l = "keep" /\ r = "keep" THEN "none"
  ELSE IF l = "keep" \/ r = "keep" THEN "onesided"
  ELSE IF l = "del" /\ r = "del" THEN "deldel"
  ELSE IF l = "del" \/ r = "del" THEN "delvs"
  ELSE IF l = r /\ l \in SameEdits THEN "same"
  ELSE IF l = r \/ {l, r} \subseteq {"text", "textS", "rewrite"} THEN "conflict"
  ELSE "independent"
Classes == {"none", "onesided", "deldel", "delvs", "same", "conflict", "independent"}

Done == phase = "edited"
TypeOK == /\ bid \in DOMAIN Bases
          /\ Done => (le \in EditFns(bid) /\ re \in EditFns(bid) /\ ll \in ListEdits /\ rl \in ListEdits)
ClassTotal == Done => \A j \in 1..N(bid) : Class(le[j], re[j]) \in Classes
Budget == Done => Count(bid, le, re, ll, rl) <= Bound(bid)

Emit == (EMIT /\ Done) =>
  PrintT("OUTEDIT " \o ToJson([base |-> bid, kinds |-> Kinds(bid), le |-> le, re |-> re, ll |-> ll, rl |-> rl,
                               classes |-> [j \in 1..N(bid) |-> Class(le[j], re[j])]]))
=============================================================================
