------------------------------ MODULE CellAlign ------------------------------
(***************************************************************************)
(* Transcription of the alignment at the heart of nbdime's notebook differ *)
(*   diffing/seq_bruteforce.py  bruteforce_compute_snakes: compare grid,   *)
(*                              LLCS grid, backtracking, snakes            *)
(*   diffing/snakes.py          compute_snakes (on a sub-rectangle),       *)
(*                              compute_snakes_multilevel (coarse snakes   *)
(*                              with the most accurate predicate, the gaps *)
(*                              between them re-aligned with the next less *)
(*                              accurate one, contiguous snakes merged),   *)
(*                              compute_diff_from_snakes (shape of the     *)
(*                              diff: removals / insertions in the gaps,   *)
(*                              matched items compared pairwise)           *)
(* on abstract cells  [id, a, o, v]:                                       *)
(*   id   0 = the cell has no id, else its id (unique within a notebook)   *)
(*   a    class of "approximately equal" sources                           *)
(*   o    class of "approximately equal" outputs                           *)
(*   v    version inside the class (strictly equal cells agree on a, o, v) *)
(* and the four predicates nbdime configures for /cells, lowest first:     *)
(*   1 approximate (a)   2 moderate (a, o)   3 strict (a, o, v)            *)
(*   4 by ids - which, when ids are ignored (IdsIgnored), falls back on    *)
(*     the strict comparison so that ignored ids do not steer alignment    *)
(* Kind "outputs": the same algorithm aligns the outputs of one cell under *)
(* two predicates (approximately equal data; strictly equal data and -     *)
(* unless the details are ignored - equal execution counts); the flag      *)
(* IdsIgnored then stands for "details ignored" and the ignored part of an *)
(* item is its execution count (field o).                                  *)
(*                                                                         *)
(* A state is a pair of cell lists; TLC checks for EVERY pair of the       *)
(* universe: SnakesOK (monotone, disjoint, in bounds, every matched pair   *)
(* satisfies the predicate of some level), TopLevelIsLcs, IdentityAligns,  *)
(* DiffShape (the diff built from the snakes is well-formed for A and      *)
(* rebuilds B), IgnoredIdsIrrelevant and ExchangedIdsInvisible (C14 at     *)
(* design level).  With EMIT every (A, B, snakes) is printed and compared  *)
(* with nbdime's compute_snakes_multilevel on the same items.              *)
(***************************************************************************)
EXTENDS Naturals, Sequences, FiniteSets, TLC, Json

CONSTANTS MaxLen, EMIT, IdsIgnored, NIds,
          Kind       \* "cells" | "outputs": the same algorithm aligns the outputs of a cell, under two predicates; the
                     \* fields then mean: a class of approximately equal data, v version inside the class, o the
                     \* execution count, and IdsIgnored says whether the DETAILS (execution counts) are ignored

VARIABLES A, B, phase
vars == <<A, B, phase>>

Max(x, y) == IF x > y THEN x ELSE y

Contents == [a : 1..2, o : 1..2, v : 1..2]
Cells == [id : 0..NIds, a : 1..2, o : 1..2, v : 1..2]
RECURSIVE SeqsUpTo(_, _)
SeqsUpTo(S, n) == IF n = 0 THEN {<<>>}
                  ELSE LET Pv == SeqsUpTo(S, n - 1)
                       IN Pv \cup {Append(s, x) : s \in {q \in Pv : Len(q) = n - 1}, x \in S}
UniqueIds(s) == \A i, j \in 1..Len(s) : (i # j /\ s[i].id # 0) => s[i].id # s[j].id
Lists == {s \in SeqsUpTo(Cells, MaxLen) : UniqueIds(s)}

(***************************************************************************)
(* the predicates                                                          *)
(***************************************************************************)
Approx(x, y)   == x.a = y.a
Moderate(x, y) == x.a = y.a /\ x.o = y.o
Strict(x, y)   == x.a = y.a /\ x.o = y.o /\ x.v = y.v
ByIds(x, y)    == IF IdsIgnored THEN Strict(x, y) ELSE (x.id # 0 /\ x.id = y.id)
\* outputs: approximately equal data; strictly equal data and - unless the details are ignored - equal execution counts
OutApprox(x, y) == x.a = y.a
OutStrict(x, y) == x.a = y.a /\ x.v = y.v /\ (IdsIgnored \/ x.o = y.o)
IsCells == Kind = "cells"
P(l, x, y) == IF IsCells
              THEN CASE l = 1 -> Approx(x, y) [] l = 2 -> Moderate(x, y) [] l = 3 -> Strict(x, y) [] OTHER -> ByIds(x, y)
              ELSE IF l = 1 THEN OutApprox(x, y) ELSE OutStrict(x, y)
TopLevel == IF IsCells THEN 4 ELSE 2

(***************************************************************************)
(* bruteforce_compute_snakes on the rectangle (i0, j0, i1, j1) of X, Y     *)
(* with the predicate of level l: pairs of matched absolute 0-based        *)
(* indices; every snake it returns has length 1 (the code compares the     *)
(* START of the last snake with the new pair, so snakes never grow there - *)
(* the multilevel pass merges contiguous ones)                             *)
(***************************************************************************)
Pairs(X, Y, l, i0, j0, i1, j1) ==
  LET N == i1 - i0
      M == j1 - j0
      G(x, y) == P(l, X[i0 + x], Y[j0 + y])          \* x in 1..N, y in 1..M
      RECURSIVE R(_, _)
      R(x, y) == IF x = 0 \/ y = 0 THEN 0
                 ELSE IF G(x, y) THEN R(x - 1, y - 1) + 1
                 ELSE Max(R(x - 1, y), R(x, y - 1))
      RECURSIVE Back(_, _)
      Back(x, y) == IF x = 0 \/ y = 0 THEN <<>>
                    ELSE IF G(x, y) THEN Append(Back(x - 1, y - 1), <<i0 + x - 1, j0 + y - 1>>)
                    ELSE IF R(x, y) = R(x - 1, y) THEN Back(x - 1, y)
                    ELSE Back(x, y - 1)
  IN Back(N, M)

Snakes1(X, Y, l, i0, j0, i1, j1) ==
  LET ps == Pairs(X, Y, l, i0, j0, i1, j1) IN [k \in 1..Len(ps) |-> <<ps[k][1], ps[k][2], 1>>]

(***************************************************************************)
(* compute_snakes_multilevel                                               *)
(***************************************************************************)
RECURSIVE ML(_, _, _, _, _, _, _)
ML(X, Y, l, i0, j0, i1, j1) ==
  LET sn == Snakes1(X, Y, l, i0, j0, i1, j1) IN
  IF l = 1 THEN sn
  ELSE
    LET ext == Append(sn, <<i1, j1, 0>>)
        RECURSIVE Loop(_, _, _, _)
        Loop(k, ci0, cj0, acc) ==
          IF k > Len(ext) THEN acc
          ELSE LET i == ext[k][1]
                   j == ext[k][2]
                   n == ext[k][3]
                   \* less accurate predicates between the coarse snakes
                   acc1 == IF i > ci0 /\ j > cj0 THEN acc \o ML(X, Y, l - 1, ci0, cj0, i, j) ELSE acc
                   last == acc1[Len(acc1)]
                   acc2 == IF n = 0 THEN acc1
                           ELSE IF last[1] + last[3] = i /\ last[2] + last[3] = j
                                THEN [acc1 EXCEPT ![Len(acc1)] = <<last[1], last[2], last[3] + n>>]   \* merge contiguous snakes
                                ELSE Append(acc1, ext[k])
               IN Loop(k + 1, i + n, j + n, acc2)
        res == Loop(1, i0, j0, << <<0, 0, 0>> >>)
    IN IF res[1][3] = 0 THEN Tail(res) ELSE res

Align(X, Y) == ML(X, Y, TopLevel, 0, 0, Len(X), Len(Y))

(***************************************************************************)
(* compute_diff_from_snakes: the shape of the diff (what is removed, what  *)
(* inserted where, which pairs are compared item by item)                  *)
(***************************************************************************)
DiffOf(X, Y, S) ==
  LET ext == Append(S, <<Len(X), Len(Y), 0>>)
      RECURSIVE Go(_, _, _)
      Go(k, i0, j0) ==
        IF k > Len(ext) THEN <<>>
        ELSE LET i == ext[k][1] j == ext[k][2] n == ext[k][3] IN
             (IF i > i0 THEN << [op |-> "removerange", key |-> i0, length |-> i - i0] >> ELSE <<>>) \o
             (IF j > j0 THEN << [op |-> "addrange", key |-> i0, vals |-> SubSeq(Y, j0 + 1, j)] >> ELSE <<>>) \o
             [q \in 1..n |-> [op |-> "pair", key |-> i + q - 1, other |-> j + q - 1]] \o
             Go(k + 1, i + n, j + n)
  IN Go(1, 0, 0)

\* applying that shape to X (pairs take Y's version of the item) gives Y back
Rebuild(X, Y, d) ==
  LET RECURSIVE Go(_, _)
      Go(k, take) ==          \* take: items of X consumed so far
        IF k > Len(d) THEN SubSeq(X, take + 1, Len(X))
        ELSE LET e == d[k] IN
             CASE e.op = "removerange" -> SubSeq(X, take + 1, e.key) \o Go(k + 1, e.key + e.length)
               [] e.op = "addrange"    -> SubSeq(X, take + 1, e.key) \o e.vals \o Go(k + 1, IF e.key > take THEN e.key ELSE take)
               [] OTHER                -> SubSeq(X, take + 1, e.key) \o <<Y[e.other + 1]>> \o Go(k + 1, e.key + 1)
  IN Go(1, 0)

(***************************************************************************)
(* state machine: one state per pair of lists                              *)
(***************************************************************************)
\* (the second list is picked by a step, so that TLC's workers share the pairs)
Init == A \in Lists /\ B = <<>> /\ phase = "first"
PickB == phase = "first" /\ B' \in Lists /\ phase' = "pair" /\ UNCHANGED A
Next == PickB
Spec == Init /\ [][Next]_vars
Ready == phase = "pair"

S == Align(A, B)
\* the part of an item the ignore option hides: the id of a cell / the execution count of an output
StripIds(X) == [k \in 1..Len(X) |-> IF IsCells THEN [X[k] EXCEPT !.id = 0] ELSE [X[k] EXCEPT !.o = 1]]

SnakesOK == Ready =>
  /\ \A k \in 1..Len(S) :
        /\ S[k][3] > 0
        /\ S[k][1] + S[k][3] <= Len(A) /\ S[k][2] + S[k][3] <= Len(B)
        /\ \A q \in 0..(S[k][3] - 1) : \E l \in 1..TopLevel : P(l, A[S[k][1] + q + 1], B[S[k][2] + q + 1])
  /\ \A k \in 1..(Len(S) - 1) :
        \* (two snakes may touch: only snakes of one level are merged with what precedes them)
        /\ S[k][1] + S[k][3] <= S[k + 1][1] /\ S[k][2] + S[k][3] <= S[k + 1][2]

\* the pairs the most accurate predicate matches are a longest common subsequence for it, and all of them are kept
Matched == UNION {{<<S[k][1] + q, S[k][2] + q>> : q \in 0..(S[k][3] - 1)} : k \in 1..Len(S)}
TopLevelIsLcs == Ready =>
  LET top == Pairs(A, B, TopLevel, 0, 0, Len(A), Len(B)) IN
  \A k \in 1..Len(top) : top[k] \in Matched

\* a notebook compared with itself is aligned cell by cell
Diagonal == {<<k, k>> : k \in 0..(Len(A) - 1)}
IdentityAligns == (Ready /\ A = B) => Matched = Diagonal

DiffShape == Ready =>
  LET d == DiffOf(A, B, S) IN
  /\ Rebuild(A, B, d) = B
  /\ \A k \in 1..(Len(d) - 1) : d[k].key <= d[k + 1].key
  /\ \A k \in 1..Len(d) : d[k].op = "removerange" => d[k].key + d[k].length <= Len(A)

\* C14 at design level: with ids ignored the alignment is a function of the contents alone,
IgnoredIdsIrrelevant == (Ready /\ IdsIgnored) => S = Align(StripIds(A), StripIds(B))
\* so notebooks that differ in ids only (cells that exchanged ids included) are aligned cell by cell: empty diff
ExchangedIdsInvisible == (Ready /\ IdsIgnored /\ StripIds(A) = StripIds(B)) => Matched = Diagonal
\* with ids in force, two cells that carry the same id are aligned whenever they are the only cells with ids
SoleIdAligned ==
  (Ready /\ ~IdsIgnored /\ IsCells) =>
    \A i \in 1..Len(A), j \in 1..Len(B) :
      (A[i].id # 0 /\ A[i].id = B[j].id /\ Cardinality({q \in 1..Len(A) : A[q].id # 0}) = 1
                                        /\ Cardinality({q \in 1..Len(B) : B[q].id # 0}) = 1)
         => <<i - 1, j - 1>> \in Matched

CellJson(c) == [id |-> c.id, a |-> c.a, o |-> c.o, v |-> c.v]
Emit == (EMIT /\ Ready) =>
  PrintT("ALIGN " \o ToJson([A |-> [k \in 1..Len(A) |-> CellJson(A[k])], B |-> [k \in 1..Len(B) |-> CellJson(B[k])],
                              S |-> S]))
=============================================================================
