----------------------------- MODULE RenderTrace -----------------------------
(***************************************************************************)
(* Trace specification for terminal rendering (C16).  One NDJSON line per  *)
(* call of pretty_print_notebook / pretty_print_notebook_diff /            *)
(* pretty_print_merge_decisions (library) or of the nbdiff / nbshow /      *)
(* nbmerge --decisions command lines:                                      *)
(*   kind     "notebook" | "diff" | "decisions"                            *)
(*   ign      ignored categories of the print configuration                *)
(*   color    colour enabled                                               *)
(*   d        the diff rendered (kind "diff")                              *)
(*   out      the text written, as code points   (absent if raised)        *)
(*   raised   [type, where, msg]                                           *)
(*   inputHasEsc  the input itself contains ESC characters                 *)
(* Contract RenderOK:                                                      *)
(*   Completes          rendering never fails                               *)
(*   EmptyDiffPrintsNothing   d = <<>> => out = ""                         *)
(*   ShownDiffPrintsSomething a diff entry on a path all of whose          *)
(*                      categories are shown => out # ""                   *)
(*   NoAnsiWithoutColor ~color => ESC (27) not in out                      *)
(***************************************************************************)
EXTENDS DiffContract, Json, IOUtils

Trace == ndJsonDeserialize(IOEnv.TRACE_FILE)
VARIABLE i

Has(ev, f) == f \in DOMAIN ev
Ign(ev) == {ev.ign[k] : k \in 1..Len(ev.ign)}

\* some entry lies on a path that belongs to at least one category and to no ignored one
RECURSIVE TouchesShownAt(_, _, _)
TouchesShownAt(p, d, ign) ==
  \E j \in 1..Len(d) :
    LET q == Append(p, StarKey(d[j])) IN
      \/ (PathCats(q) # {} /\ PathCats(q) \cap ign = {})
      \/ (d[j].op = "patch" /\ "diff" \in DOMAIN d[j] /\ TouchesShownAt(q, d[j].diff, ign))
TouchesShown(d, ign) == TouchesShownAt(<<>>, d, ign)

Clauses(ev) ==
  IF Has(ev, "raised") THEN << <<"Completes", FALSE>> >>
  ELSE <<
    <<"Completes", TRUE>>,
    <<"EmptyDiffPrintsNothing", (ev.kind = "diff" /\ Len(ev.d) = 0) => Len(ev.out) = 0>>,
    <<"ShownDiffPrintsSomething", (ev.kind = "diff" /\ TouchesShown(ev.d, Ign(ev))) => Len(ev.out) > 0>>,
    <<"NoAnsiWithoutColor", (~ev.color /\ ~ev.inputHasEsc) => \A k \in 1..Len(ev.out) : ev.out[k] # 27>>
  >>

Report(ev) ==
  LET cs == Clauses(ev) IN
  \A k \in 1..Len(cs) : IF cs[k][2] THEN TRUE ELSE PrintT(<<"FAIL", ev.tid, cs[k][1]>>)

Init == i = 1
Next == /\ i <= Len(Trace)
        /\ Report(Trace[i]) = TRUE
        /\ i' = i + 1
Spec == Init /\ [][Next]_i
Accepted == TLCGet("stats").diameter = Len(Trace) + 1
=============================================================================
