------------------------------ MODULE Ownership -----------------------------
(***************************************************************************)
(* Environment model for C06: the two sides change DIFFERENT cells.        *)
(*                                                                         *)
(* A case is: a base notebook of N cells; for every cell an owner          *)
(* ("L" local, "R" remote, "N" nobody) and, for owned cells, the action the *)
(* owner performs (edit source slightly / moderately, change outputs,      *)
(* cell metadata, execution count, delete); optionally ONE insertion of a  *)
(* new cell by one side in a gap that is not adjacent to a cell the other  *)
(* side touched.  The expected merge result is known by construction:      *)
(* base with every action applied.  TLC enumerates all cases as initial    *)
(* states and checks the construction invariants                           *)
(*   Disjoint      no cell is changed by both sides                        *)
(*   ExpectedIsBoth  expected restricted to L-owned cells equals local,    *)
(*                   restricted to R-owned cells equals remote             *)
(***************************************************************************)
EXTENDS Naturals, Sequences, FiniteSets, TLC, Json

CONSTANTS N, Minor, EMIT,
          Tmpl     \* "mixed": cells of different families and kinds; "similar": code cells of ONE family whose
                   \* sources differ only moderately and whose stream outputs are alike (hard to align without ids)

VARIABLES owner, act, ins
vars == <<owner, act, ins>>

Cell(cid, fam, kind, src, outs, md, ec, att) ==
  [cid |-> cid, fam |-> fam, kind |-> kind, src |-> src, outs |-> outs,
   md |-> md, ec |-> ec, att |-> att]

Template == IF Tmpl = "similar"
            THEN << Cell(1, 3, "code", 0, 1, 0, 1, 0),
                    Cell(2, 3, "code", 2, 1, 0, 2, 0),
                    Cell(3, 1, "code", 0, 1, 0, 1, 0),
                    Cell(4, 3, "code", 2, 3, 1, 2, 0) >>
            ELSE << Cell(1, 1, "code", 0, 1, 0, 1, 0),
                    Cell(2, 6, "markdown", 0, 0, 0, 0, 1),      \* (text with every line separator Python knows)
                    Cell(3, 3, "code", 0, 2, 1, 2, 0),
                    Cell(4, 5, "markdown", 0, 0, 2, 0, 0) >>
BaseCells == SubSeq(Template, 1, N)

\* In the "similar" template a source edit must leave the cell closer to its own base version than to its
\* neighbour (without ids nothing else identifies WHICH cell was edited): only the small edit of a variant-0 cell.
Actions(c) == (IF Tmpl = "similar" THEN (IF c.src = 0 THEN {"src1"} ELSE {}) ELSE {"src1", "src2"})
              \cup {"md", "del"} \cup
              \* the numbers in the cell's metadata change their JSON type only (1 -> 1.0): equal for Python's ==
              (IF c.md \in {1, 2} THEN {"mdtype"} ELSE {}) \cup
              (IF c.kind = "code" THEN {"outs", "ec", "rerun"} ELSE {"att"})

Apply(c, a) ==
  CASE a = "src1"  -> [c EXCEPT !.src = IF c.src = 1 THEN 0 ELSE 1]
    [] a = "src2"  -> [c EXCEPT !.src = IF c.src = 2 THEN 0 ELSE 2]
    [] a = "md"    -> [c EXCEPT !.md = (c.md + 1) % 3]
    [] a = "mdtype" -> [c EXCEPT !.md = c.md + 10]
    [] a = "outs"  -> [c EXCEPT !.outs = (c.outs + 2) % 7]
    [] a = "ec"    -> [c EXCEPT !.ec = (c.ec % 2) + 1]
    [] a = "rerun" -> [c EXCEPT !.ec = (c.ec % 2) + 1, !.outs = IF c.outs = 2 THEN 5 ELSE (c.outs + 1) % 7]
    [] a = "att"   -> [c EXCEPT !.att = (c.att + 1) % 4]
    [] OTHER       -> c

NewCell == Cell(9, 7, "code", 0, 1, 0, 1, 0)

\* version of the notebook seen by side s ("L"/"R") or the expected merge ("M")
CellsFor(s) ==
  LET Keep(i) == ~((s = "M" \/ owner[i] = s) /\ owner[i] # "N" /\ act[i] = "del")
      One(i)  == IF (s = "M" \/ owner[i] = s) /\ owner[i] # "N" THEN Apply(BaseCells[i], act[i]) ELSE BaseCells[i]
      Gap(g)  == IF ins.side # "N" /\ ins.gap = g /\ (s = "M" \/ ins.side = s) THEN <<NewCell>> ELSE <<>>
      RECURSIVE Build(_)
      Build(i) == IF i > N THEN Gap(N)
                  ELSE Gap(i - 1) \o (IF Keep(i) THEN <<One(i)>> ELSE <<>>) \o Build(i + 1)
  IN Build(1)

Nb(cells) == [minor |-> Minor, nbmd |-> 1, cells |-> cells]

Touched(s, i) == i \in 1..N /\ owner[i] = s
Other(s) == IF s = "L" THEN "R" ELSE "L"

Init ==
  /\ owner \in [1..N -> {"L", "R", "N"}]
  /\ act \in [1..N -> {"src1", "src2", "md", "mdtype", "del", "outs", "ec", "rerun", "att", "none"}]
  /\ \A i \in 1..N : IF owner[i] = "N" THEN act[i] = "none" ELSE act[i] \in Actions(BaseCells[i])
  /\ ins \in [side : {"L", "R", "N"}, gap : 0..N]
  /\ ins.side = "N" => ins.gap = 0
  \* a gap g lies between cells g and g+1: not adjacent to a cell the other side touched
  /\ ins.side # "N" => (~Touched(Other(ins.side), ins.gap) /\ ~Touched(Other(ins.side), ins.gap + 1))
  \* both sides change something
  /\ (\E i \in 1..N : owner[i] = "L") \/ ins.side = "L"
  /\ (\E i \in 1..N : owner[i] = "R") \/ ins.side = "R"

Next == UNCHANGED vars
Spec == Init /\ [][Next]_vars

Disjoint == \A i \in 1..N : ~(owner[i] = "L" /\ owner[i] = "R")
ExpectedIsBoth ==
  \A i \in 1..N :
     /\ owner[i] = "N" => (\E k \in 1..Len(CellsFor("M")) : CellsFor("M")[k] = BaseCells[i])
     /\ (owner[i] # "N" /\ act[i] # "del") =>
           (\E k \in 1..Len(CellsFor("M")) : CellsFor("M")[k] = Apply(BaseCells[i], act[i]))
     /\ (owner[i] # "N" /\ act[i] = "del") =>
           ~(\E k \in 1..Len(CellsFor("M")) : CellsFor("M")[k].cid = BaseCells[i].cid)

Emit == EMIT => PrintT("CASE " \o ToJson([base |-> Nb(BaseCells), local |-> Nb(CellsFor("L")),
                                          remote |-> Nb(CellsFor("R")), expected |-> Nb(CellsFor("M")),
                                          owner |-> owner, act |-> act, ins |-> ins]))
=============================================================================
