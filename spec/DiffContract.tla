---------------------------- MODULE DiffContract ----------------------------
(***************************************************************************)
(* Contract of the differ as a set of allowed results.                     *)
(* The real differ is a refinement: for inputs (a, b) and a set ign of     *)
(* ignored categories it may return ANY diff d with AllowedDiff(a,b,ign,d).*)
(* Each conjunct is a direct reading of C01 / C02 / C11 / C14.             *)
(***************************************************************************)
EXTENDS DiffFormat, NbPaths

RoundTripOK(pa, b, ign) == Eq(Mask(pa, ign), Mask(b, ign))

\* equality up to Python's "==" on numbers/booleans: known-finding classifier only
RECURSIVE EqNum(_, _)
EqNum(x, y) ==
  IF x.t \in {"i", "f", "b"} /\ y.t \in {"i", "f", "b"} THEN NumClass(x) = NumClass(y)
  ELSE IF x.t # y.t THEN FALSE
  ELSE CASE x.t = "o" -> /\ DOMAIN x.m = DOMAIN y.m
                         /\ \A k \in DOMAIN x.m : EqNum(x.m[k], y.m[k])
         [] x.t = "l" -> /\ Len(x.e) = Len(y.e)
                         /\ \A j \in 1..Len(x.e) : EqNum(x.e[j], y.e[j])
         [] x.t = "s" -> x.c = y.c
         [] x.t = "n" -> TRUE
         [] OTHER     -> FALSE
RoundTripModNumOK(pa, b, ign) == EqNum(Mask(pa, ign), Mask(b, ign))

StarKey(e) == IF e.kt = "s" THEN e.key ELSE "*"

\* no entry of the diff sits at (or below) a path of an ignored category
RECURSIVE NoIgnoredPathAt(_, _, _)
NoIgnoredPathAt(p, d, ign) ==
  \A j \in 1..Len(d) :
    LET q == Append(p, StarKey(d[j])) IN
      /\ ~IgnoredPath(q, ign)
      /\ (d[j].op = "patch" /\ "diff" \in DOMAIN d[j]) => NoIgnoredPathAt(q, d[j].diff, ign)
NoIgnoredPath(d, ign) == ign = {} \/ NoIgnoredPathAt(<<>>, d, ign)

AllowedDiff(a, b, ign, d) ==
  /\ SchemaOK(d)
  /\ DiffPlainJSON(d)
  /\ WellFormed(a, d)
  /\ NoIgnoredPath(d, ign)
  /\ RoundTripOK(Patch(a, d), b, ign)
  /\ (ign = {} => ((Len(d) = 0) <=> Eq(a, b)))
=============================================================================
