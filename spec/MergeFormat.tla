----------------------------- MODULE MergeFormat ----------------------------
(***************************************************************************)
(* Reference semantics of nbdime's documented merge-decision format        *)
(* (docs/source/merging.rst, nbdime/merge_format.schema.json).             *)
(*                                                                         *)
(* Encoded decision:                                                       *)
(*   [common_path |-> sequence of path steps [k, s, i],                    *)
(*    conflict    |-> BOOLEAN,  conflict_ok |-> conflict field is a bool,  *)
(*    action      |-> string,                                              *)
(*    local_diff  |-> diff,  local_null  |-> the field was null/absent,    *)
(*    remote_diff |-> diff,  remote_null |-> ...,                          *)
(*    custom_diff |-> diff,  custom_null |-> ...,                          *)
(*    similar     |-> diff,  similar_null|-> ...,                          *)
(*    extra       |-> sequence of field names not in the schema,           *)
(*    path_ok     |-> every path item is a string or an integer]           *)
(*                                                                         *)
(* ApplyDecisions(base, D): maximal runs of consecutive decisions whose    *)
(* (string-split) path is the same are one group; the resolved diffs of a  *)
(* group are concatenated, put in canonical form (one patch per key,       *)
(* stable sort by position) and applied with DiffFormat!Patch to the       *)
(* sub-document at that path; groups are applied in list order.            *)
(***************************************************************************)
EXTENDS DiffFormat, IOUtils

\* transcription of the action enum of nbdime/merge_format.schema.json
SchemaActions == {"local", "remote", "base", "clear", "clear_all", "remove", "either",
                  "local_then_remote", "remote_then_local", "take_max", "custom"}

\* acts: the action enum, as read from the published schema file by the harness (SchemaActions is its transcription
\* at the time of writing; the file is the authority)
DecisionSchemaOKFor(dec, acts) ==
  /\ Len(dec.extra) = 0
  /\ dec.conflict_ok
  /\ dec.path_ok
  /\ dec.action \in acts
  /\ SchemaOK(dec.local_diff) /\ SchemaOK(dec.remote_diff)
  /\ SchemaOK(dec.custom_diff) /\ SchemaOK(dec.similar)

DecisionSchemaOK(dec) ==
  /\ Len(dec.extra) = 0
  /\ dec.conflict_ok
  /\ dec.path_ok
  /\ dec.action \in SchemaActions
  /\ SchemaOK(dec.local_diff) /\ SchemaOK(dec.remote_diff)
  /\ SchemaOK(dec.custom_diff) /\ SchemaOK(dec.similar)

DecisionPlainJSON(dec) ==
  /\ dec.path_ok /\ dec.conflict_ok
  /\ DiffPlainJSON(dec.local_diff) /\ DiffPlainJSON(dec.remote_diff)
  /\ DiffPlainJSON(dec.custom_diff) /\ DiffPlainJSON(dec.similar)

(***************************************************************************)
(* Paths that end inside a string: the tail (a line number) is split off.  *)
(* Result: [ok, path, line] ; ok = FALSE when the path does not resolve.    *)
(***************************************************************************)
SplitStringPath(doc, p) ==
  LET RECURSIVE Go(_, _)
      Go(x, k) ==
        IF k > Len(p) THEN [ok |-> TRUE, path |-> p, line |-> <<>>]
        ELSE IF x.t = "s" THEN [ok |-> TRUE, path |-> SubSeq(p, 1, k - 1), line |-> SubSeq(p, k, Len(p))]
        ELSE IF p[k].k = "s"
             THEN IF x.t = "o" /\ p[k].s \in DOMAIN x.m THEN Go(x.m[p[k].s], k + 1)
                  ELSE [ok |-> FALSE, path |-> <<>>, line |-> <<>>]
        ELSE IF p[k].k = "i"
             THEN IF x.t = "l" /\ p[k].i >= 0 /\ p[k].i < Len(x.e) THEN Go(x.e[p[k].i + 1], k + 1)
                  ELSE [ok |-> FALSE, path |-> <<>>, line |-> <<>>]
        ELSE [ok |-> FALSE, path |-> <<>>, line |-> <<>>]
  IN Go(doc, 1)

\* wrap a diff in patch entries along a (line) path, innermost last
RECURSIVE PushPath(_, _)
PushPath(line, d) ==
  IF Len(line) = 0 THEN d
  ELSE LET st == line[1]
           inner == PushPath(Tail(line), d)
       IN << [op |-> "patch", kt |-> st.k, key |-> IF st.k = "s" THEN st.s ELSE st.i, diff |-> inner] >>

(***************************************************************************)
(* Canonical form of a concatenation of diffs (combine_patches in the      *)
(* docs' terms): one patch entry per key, recursively; sequence entries    *)
(* stably sorted by key.                                                    *)
(***************************************************************************)
RECURSIVE Canonical(_)
Canonical(d) ==
  LET n == Len(d)
      \* index of the first patch entry with the same key as d[j] (j itself if none earlier)
      SameKey(x, y) == x.kt = y.kt /\ x.key = y.key
      FirstPatch(j) == CHOOSE f \in 1..j :
                          /\ d[f].op = "patch" /\ SameKey(d[f], d[j])
                          /\ \A g \in 1..(f - 1) : ~(d[g].op = "patch" /\ SameKey(d[g], d[j]))
      Keep(j) == d[j].op # "patch" \/ FirstPatch(j) = j
      \* all sub-diffs of patches on the key of d[j], concatenated in order
      RECURSIVE Collect(_, _)
      Collect(j, g) == IF g > n THEN <<>>
                       ELSE (IF d[g].op = "patch" /\ SameKey(d[g], d[j]) THEN d[g].diff ELSE <<>>)
                            \o Collect(j, g + 1)
      Merged(j) == IF d[j].op = "patch" THEN [d[j] EXCEPT !.diff = Canonical(Collect(j, 1))] ELSE d[j]
      RECURSIVE Build(_)
      Build(j) == IF j > n THEN <<>>
                  ELSE (IF Keep(j) THEN <<Merged(j)>> ELSE <<>>) \o Build(j + 1)
      merged == Build(1)
      IsSeqDiff == \A j \in 1..Len(merged) : merged[j].kt = "i"
      RECURSIVE InsertSorted(_, _)
      InsertSorted(s, e) ==          \* stable: after every element with key <= e.key
        IF Len(s) = 0 THEN <<e>>
        ELSE IF s[Len(s)].key <= e.key THEN Append(s, e)
        ELSE Append(InsertSorted(SubSeq(s, 1, Len(s) - 1), e), s[Len(s)])
      RECURSIVE SortFrom(_, _)
      SortFrom(j, acc) == IF j > Len(merged) THEN acc ELSE SortFrom(j + 1, InsertSorted(acc, merged[j]))
  IN IF n = 0 THEN <<>>
     ELSE IF IsSeqDiff THEN SortFrom(1, <<>>) ELSE merged

(***************************************************************************)
(* Applicable: Patch(x, d) is defined (weaker than WellFormed: the         *)
(* canonical concatenation of two diffs may hold several insertions at     *)
(* one position, or a removal followed by an insertion at the same key).   *)
(***************************************************************************)
RECURSIVE Applicable(_, _)
ApplicableSeq(n, d, ItemOK(_)) ==
  /\ \A j \in 1..Len(d) :
        /\ d[j].kt = "i" /\ d[j].op \in SeqOps /\ d[j].key \in 0..n
        /\ d[j].op = "removerange" => ("length" \in DOMAIN d[j] /\ d[j].length >= 0 /\ d[j].key + d[j].length <= n)
        /\ d[j].op = "addrange" => "valuelist" \in DOMAIN d[j]
        /\ d[j].op = "patch" => ("diff" \in DOMAIN d[j] /\ d[j].key < n /\ ItemOK(d[j]))
  /\ \A j \in 1..(Len(d) - 1) : d[j].key <= d[j+1].key
ApplicableChars(chars, d) ==
  ApplicableSeq(Len(chars), d, LAMBDA e : FALSE)
  /\ \A j \in 1..Len(d) : d[j].op = "addrange" => d[j].valuelist.t = "s"
Applicable(x, d) ==
  CASE x.t = "l" ->
         /\ ApplicableSeq(Len(x.e), d, LAMBDA e : IsContainer(x.e[e.key + 1]) /\ Applicable(x.e[e.key + 1], e.diff))
         /\ \A j \in 1..Len(d) : d[j].op = "addrange" => d[j].valuelist.t = "l"
    [] x.t = "s" ->
         LET lines == SplitLines(x.c, LineSeps) IN
         /\ ApplicableSeq(Len(lines), d, LAMBDA e : ApplicableChars(lines[e.key + 1], e.diff))
         /\ \A j \in 1..Len(d) : d[j].op = "addrange" =>
               (d[j].valuelist.t = "l" /\ \A q \in 1..Len(d[j].valuelist.e) : d[j].valuelist.e[q].t = "s")
    [] x.t = "o" ->
         /\ \A j \in 1..Len(d) :
               /\ d[j].kt = "s" /\ d[j].op \in ObjOps
               /\ d[j].op = "add" => ("value" \in DOMAIN d[j] /\ d[j].key \notin DOMAIN x.m)
               /\ d[j].op = "replace" => ("value" \in DOMAIN d[j] /\ d[j].key \in DOMAIN x.m)
               /\ d[j].op = "remove" => d[j].key \in DOMAIN x.m
               /\ d[j].op = "patch" => /\ "diff" \in DOMAIN d[j] /\ d[j].key \in DOMAIN x.m
                                       /\ IsContainer(x.m[d[j].key]) /\ Applicable(x.m[d[j].key], d[j].diff)
         /\ \A j, k \in 1..Len(d) : j # k => d[j].key # d[k].key
    [] OTHER -> Len(d) = 0

(***************************************************************************)
(* ResolveAction: the diff an action stands for, relative to the           *)
(* sub-document sub at the decision's path.  [ok, d]                        *)
(***************************************************************************)
NatOf(v) == IF \E q \in 0..64 : ToString(q) = v THEN CHOOSE q \in 0..64 : ToString(q) = v ELSE 0
IsSmallNat(x) == x.t = "i" /\ \E q \in 0..64 : ToString(q) = x.v

Cleared(x) == CASE x.t = "l" -> List(<<>>)
                [] x.t = "o" -> Obj([q \in {} |-> Null])
                [] x.t = "s" -> Str(<<>>)
                [] OTHER     -> Null

\* the single key all entries of local_diff \o remote_diff share (clear/remove/take_max)
SingleKey(dec) ==
  LET both == dec.local_diff \o dec.remote_diff IN
  IF Len(both) = 0 THEN [ok |-> FALSE, kt |-> "x", key |-> 0]
  ELSE IF \A j \in 1..Len(both) : both[j].kt = both[1].kt /\ both[j].key = both[1].key
       THEN [ok |-> TRUE, kt |-> both[1].kt, key |-> both[1].key]
       ELSE [ok |-> FALSE, kt |-> "x", key |-> 0]

ItemAt(sub, kt, key) ==
  IF sub.t = "o" /\ kt = "s" /\ key \in DOMAIN sub.m THEN [ok |-> TRUE, v |-> sub.m[key]]
  ELSE IF sub.t = "l" /\ kt = "i" /\ key >= 0 /\ key < Len(sub.e) THEN [ok |-> TRUE, v |-> sub.e[key + 1]]
  ELSE [ok |-> FALSE, v |-> Null]

KeySeqOf(m) ==      \* some enumeration of the keys of an object
  LET RECURSIVE Enum(_)
      Enum(S) == IF S = {} THEN <<>> ELSE LET k == CHOOSE q \in S : TRUE IN <<k>> \o Enum(S \ {k})
  IN Enum(DOMAIN m)

ResolveAction(sub, dec) ==
  LET a  == dec.action
      OK(d) == [ok |-> TRUE, d |-> d]
      BAD == [ok |-> FALSE, d |-> <<>>]
  IN
  CASE a = "base" -> OK(<<>>)
    [] a \in {"local", "either"} -> OK(dec.local_diff)
    [] a = "remote" -> OK(dec.remote_diff)
    [] a = "custom" -> OK(dec.custom_diff)
    [] a = "local_then_remote" -> OK(dec.local_diff \o dec.remote_diff)
    [] a = "remote_then_local" -> OK(dec.remote_diff \o dec.local_diff)
    [] a = "clear" ->
         LET sk == SingleKey(dec) it == ItemAt(sub, sk.kt, sk.key)
             both == dec.local_diff \o dec.remote_diff IN
         IF sk.ok /\ it.ok /\ sub.t = "o"
         THEN OK(<< [op |-> "replace", kt |-> "s", key |-> sk.key, value |-> Cleared(it.v)] >>)
         \* both sides ADD the key with different values (a markdown cell converted to a code cell on both sides, with
         \* different execution counts): the cleared value is added
         ELSE IF sk.ok /\ sub.t = "o" /\ sk.kt = "s" /\ sk.key \notin DOMAIN sub.m /\ "value" \in DOMAIN both[1]
              THEN OK(<< [op |-> "add", kt |-> "s", key |-> sk.key, value |-> Cleared(both[1].value)] >>)
         ELSE BAD
    [] a = "remove" ->
         LET sk == SingleKey(dec) IN
         IF ~sk.ok THEN BAD
         ELSE IF sub.t \in {"l", "s"} /\ sk.kt = "i"
              THEN OK(<< [op |-> "removerange", kt |-> "i", key |-> sk.key, length |-> 1] >>)
         ELSE IF sub.t = "o" /\ sk.kt = "s" THEN OK(<< [op |-> "remove", kt |-> "s", key |-> sk.key] >>)
         ELSE BAD
    [] a = "clear_all" ->
         IF sub.t = "o"
         THEN LET ks == KeySeqOf(sub.m) IN
              OK([j \in 1..Len(ks) |-> [op |-> "remove", kt |-> "s", key |-> ks[j]]])
         ELSE IF sub.t = "l" THEN (IF Len(sub.e) = 0 THEN OK(<<>>) ELSE
                  OK(<< [op |-> "removerange", kt |-> "i", key |-> 0, length |-> Len(sub.e)] >>))
         ELSE IF sub.t = "s" THEN
              LET nl == Len(SplitLines(sub.c, LineSeps)) IN
              (IF nl = 0 THEN OK(<<>>) ELSE OK(<< [op |-> "removerange", kt |-> "i", key |-> 0, length |-> nl] >>))
         ELSE BAD
    [] a = "take_max" ->
         LET sk == SingleKey(dec) it == ItemAt(sub, sk.kt, sk.key)
             val(d) == IF Len(d) > 0 /\ "value" \in DOMAIN d[1] THEN d[1].value ELSE it.v
             lv == val(dec.local_diff) rv == val(dec.remote_diff)
         IN IF ~(sk.ok /\ it.ok /\ sub.t = "o" /\ IsSmallNat(it.v) /\ IsSmallNat(lv) /\ IsSmallNat(rv)) THEN BAD
            ELSE LET mx == Max(NatOf(it.v.v), Max(NatOf(lv.v), NatOf(rv.v))) IN
                 IF mx = NatOf(it.v.v) THEN OK(<<>>)
                 ELSE OK(<< [op |-> "replace", kt |-> "s", key |-> sk.key, value |-> Int(ToString(mx))] >>)
    [] OTHER -> BAD

(***************************************************************************)
(* ApplyDecisions                                                          *)
(***************************************************************************)
ApplyDecisions(base, D) ==
  LET n == Len(D)
      Fail == [ok |-> FALSE, v |-> base]
      RECURSIVE Go(_, _)
      Go(i, cur) ==
        IF i > n THEN [ok |-> TRUE, v |-> cur]
        ELSE
          LET sp == SplitStringPath(cur, D[i].common_path) IN
          IF ~sp.ok THEN Fail
          ELSE
            LET p == sp.path
                Same(k) == LET q == SplitStringPath(cur, D[k].common_path) IN q.ok /\ q.path = p
                \* end of the maximal run starting at i
                RECURSIVE RunEnd(_)
                RunEnd(k) == IF k < n /\ Same(k + 1) THEN RunEnd(k + 1) ELSE k
                j == RunEnd(i)
                sub == Get(cur, p)
                \* fold the run: [ok, d, cleared]
                RECURSIVE Fold(_, _)
                Fold(k, acc) ==
                  IF k > j \/ ~acc.ok THEN acc
                  ELSE IF acc.cleared THEN Fold(k + 1, acc)       \* clear_all overrides the rest
                  ELSE LET ra == ResolveAction(sub, D[k])
                           ln == SplitStringPath(cur, D[k].common_path).line
                       IN IF ~ra.ok THEN [ok |-> FALSE, d |-> <<>>, cleared |-> FALSE]
                          ELSE IF D[k].action = "clear_all"
                               THEN Fold(k + 1, [ok |-> TRUE, d |-> Canonical(PushPath(ln, ra.d)), cleared |-> TRUE])
                               ELSE Fold(k + 1, [ok |-> TRUE, d |-> Canonical(acc.d \o PushPath(ln, ra.d)),
                                                 cleared |-> FALSE])
                g == Fold(i, [ok |-> TRUE, d |-> <<>>, cleared |-> FALSE])
            IN IF ~g.ok THEN Fail
               ELSE IF ~Applicable(sub, g.d) THEN Fail
               ELSE Go(j + 1, Set(cur, p, Patch(sub, g.d)))
  IN Go(1, base)

(***************************************************************************)
(* Re-labelling                                                            *)
(***************************************************************************)
AllSide(D, side) == [k \in 1..Len(D) |-> [D[k] EXCEPT !.action = side]]
ResolveAll(D, side) == [k \in 1..Len(D) |-> IF D[k].conflict THEN [D[k] EXCEPT !.action = side, !.conflict = FALSE]
                                            ELSE D[k]]
NoConflict(D) == \A k \in 1..Len(D) : ~D[k].conflict
HasConflict(D) == \E k \in 1..Len(D) : D[k].conflict

(***************************************************************************)
(* Ordering (C09): a decision inside a sub-document precedes any decision  *)
(* on an enclosing path; decisions of one path are contiguous.             *)
(***************************************************************************)
GroupPath(base, dec) == LET sp == SplitStringPath(base, dec.common_path) IN
                        IF sp.ok THEN sp.path ELSE dec.common_path

\* on the raw common paths: (cells, 1, source, 8) lies inside (cells, 1, source)
OrderedOK(base, D) ==
  \A i, j \in 1..Len(D) :
     i < j => ~IsProperPrefix(D[i].common_path, D[j].common_path)

SamePathContiguous(base, D) ==
  \A i, j \in 1..Len(D) :
     (i < j /\ GroupPath(base, D[i]) = GroupPath(base, D[j])) =>
        \A k \in i..j : GroupPath(base, D[k]) = GroupPath(base, D[i])
=============================================================================
