----------------------------- MODULE RenderMatrix ----------------------------
(***************************************************************************)
(* Configuration matrix of terminal rendering (C16): every subset of the   *)
(* six ignore flags x colour on/off x colour-words on/off x external diff  *)
(* tool availability (git, diff, neither), paired with an input class.     *)
(* TLC enumerates it; each configuration is applied to the real renderers. *)
(***************************************************************************)
EXTENDS Naturals, FiniteSets, Sequences, TLC, Json
CONSTANTS NInputs, EMIT
VARIABLES ign, color, words, renderer, input
vars == <<ign, color, words, renderer, input>>
Cats == {"sources", "outputs", "attachments", "metadata", "id", "details"}
Init == /\ ign \in SUBSET Cats /\ color \in BOOLEAN /\ words \in BOOLEAN
        /\ renderer \in {"git", "diff", "builtin"} /\ input \in 1..NInputs
Next == UNCHANGED vars
Spec == Init /\ [][Next]_vars
TypeOK == ign \subseteq Cats
ToSeq(S) == LET RECURSIVE E(_)
                E(X) == IF X = {} THEN <<>> ELSE LET x == CHOOSE y \in X : TRUE IN <<x>> \o E(X \ {x})
            IN E(S)
Emit == EMIT => PrintT("CFG " \o ToJson([ign |-> ToSeq(ign), color |-> color, words |-> words,
                                        renderer |-> renderer, input |-> input]))
=============================================================================
