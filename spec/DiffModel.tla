------------------------------ MODULE DiffModel -----------------------------
(***************************************************************************)
(* Design-level model of the diff format over a bounded JSON universe.     *)
(*                                                                         *)
(* State machine:  Init picks a document a of the universe;                *)
(*   ChooseDiff  picks ANY canonical well-formed diff d of a (an insertion *)
(*               choice for every gap, a fate keep/remove/patch for every  *)
(*               item, a choice whether adjacent removals are merged;      *)
(*               add/remove/replace/patch/keep per object key) and         *)
(*               computes r = Patch(a, d).                                 *)
(* TLC checks on every reachable state:                                    *)
(*   GenWellFormed   every generated diff is WellFormed and SchemaOK       *)
(*   PatchTotal      Patch is defined and yields a value of a's kind       *)
(*   LengthLaw       |r| = |a| - removed + inserted for lists              *)
(*   FlattenLemma    patching a string line-wise = patching its characters *)
(*                   with the flattened diff (what py and ts both do)      *)
(*   ContractSat     the contract is satisfiable: AllowedDiff(a, r, {}, d) *)
(*                   whenever d is empty iff r = a (canonical non-noop)    *)
(* With EMIT = TRUE every state is printed as JSON: the universe (phase    *)
(* "doc") drives the exhaustive pair/triple enumeration of C02/C05/C06 and *)
(* every (a, d, r) (phase "patched") is replayed into nbdime's and the     *)
(* TypeScript patch (spec -> code).                                        *)
(***************************************************************************)
EXTENDS DiffContract, DiffGen, Json

CONSTANTS MaxLen,      \* maximal list length / number of string tokens
          Universe,    \* "lists" | "lists3" (3 atoms, longer) | "nested" | "objects" | "strings"
          EMIT         \* print states as JSON

VARIABLES a, d, r, phase
vars == <<a, d, r, phase>>

AtomU == {Int("1"), Int("2"), Flt("1.0"), Bool("true"), Null, Str(<<120>>)}
ItemU == {Int("1"), Bool("true"), Str(<<120, 10, 121>>),
          List(<<>>), List(<<Int("1")>>), List(<<Int("1"), Int("2")>>),
          Obj([k \in {} |-> Null]), Obj([k \in {"a"} |-> Int("1")]),
          Obj([k \in {"a"} |-> List(<<Int("1")>>)])}

RECURSIVE SeqsUpTo(_, _)
SeqsUpTo(S, n) == IF n = 0 THEN {<<>>}
                  ELSE LET P == SeqsUpTo(S, n - 1)
                       IN P \cup {Append(s, x) : s \in {q \in P : Len(q) = n - 1}, x \in S}

KeySeq == <<"a", "b">>
ObjU(V) == LET KS == {KeySeq[j] : j \in 1..Len(KeySeq)}
           IN UNION {[K -> V] : K \in SUBSET KS}

\* string tokens: a, b, LF, CR, VT, NEL, LS  (CR LF arises from CR then LF) and one character outside the Basic
\* Multilingual Plane (U+1F600: one code point for Python, two UTF-16 units for JavaScript)
TokU == {<<97>>, <<98>>, <<10>>, <<13>>, <<11>>, <<133>>, <<8232>>, <<128512>>}

DocU ==
  CASE Universe = "lists"   -> {List(s) : s \in SeqsUpTo(AtomU, MaxLen)}
    [] Universe = "lists3"  -> {List(s) : s \in SeqsUpTo({Int("1"), Flt("1.0"), Bool("true")}, MaxLen)}
    \* zero, float zero and negative zero: equal for Python's ==, three different JSON texts
    [] Universe = "zeros"   -> {List(s) : s \in SeqsUpTo({Int("0"), Flt("0.0"), Flt("-0.0")}, MaxLen)}
    [] Universe = "nested"  -> {List(s) : s \in SeqsUpTo(ItemU, MaxLen)}
    [] Universe = "objects" -> {Obj(m) : m \in ObjU(AtomU \cup {List(<<Int("1")>>), Obj([k \in {"a"} |-> Int("1")])})}
    [] Universe = "strings" -> {Str(FlatSeq(s)) : s \in SeqsUpTo(TokU, MaxLen)}

(***************************************************************************)
(* Canonical well-formed sequence diffs from (ins, fate, merge).           *)
(***************************************************************************)
ListInsU == {<<>>, <<Int("1")>>, <<Bool("true"), Str(<<120>>)>>}
LineInsU == {<<>>, <<Str(<<97, 10>>)>>, <<Str(<<98>>), Str(<<13>>)>>}
CharInsU == {<<>>, <<99>>, <<10, 100>>}

\* character diffs of one line (no patch fate)
CharDiffs(chars) ==
  LET n == Len(chars) IN
  {BuildSeq(n, ins, fate, mg) :
      ins \in [0..n -> InsChoices(CharInsU, Str)],
      fate \in [1..n -> {<<"keep">>, <<"rm">>}],
      mg \in BOOLEAN}

RECURSIVE DiffsOf(_, _)
\* all canonical well-formed diffs of x; depth bounds nesting
ListDiffs(items, depth) ==
  LET n == Len(items)
      Fates(j) == {<<"keep">>, <<"rm">>} \cup
                  (IF depth > 0 /\ IsContainer(items[j])
                   THEN {<<"patch", sd>> : sd \in DiffsOf(items[j], depth - 1) \ {<<>>}}
                   ELSE {})
      FateFns == IF n = 0 THEN {<<>>}
                 ELSE {f \in [1..n -> UNION {Fates(j) : j \in 1..n}] : \A j \in 1..n : f[j] \in Fates(j)}
  IN {BuildSeq(n, ins, fate, mg) :
        ins \in [0..n -> InsChoices(ListInsU, List)], fate \in FateFns, mg \in BOOLEAN}

StringDiffs(c, depth) ==
  LET lines == SplitLines(c, LineSeps)
      n == Len(lines)
      Fates(j) == {<<"keep">>, <<"rm">>} \cup
                  (IF depth > 0 /\ Len(lines[j]) <= 2
                   THEN {<<"patch", sd>> : sd \in CharDiffs(lines[j]) \ {<<>>}}
                   ELSE {})
      FateFns == IF n = 0 THEN {<<>>}
                 ELSE {f \in [1..n -> UNION {Fates(j) : j \in 1..n}] : \A j \in 1..n : f[j] \in Fates(j)}
  IN {BuildSeq(n, ins, fate, mg) :
        ins \in [0..n -> InsChoices(LineInsU, LAMBDA s : List(s))], fate \in FateFns, mg \in BOOLEAN}

ObjDiffs(m, depth) ==
  LET KeyFates(k) ==
        IF k \in DOMAIN m
        THEN {<<"keep">>, <<"remove">>, <<"replace", Int("7")>>, <<"replace", List(<<>>)>>} \cup
             (IF depth > 0 /\ IsContainer(m[k])
              THEN {<<"patch", sd>> : sd \in DiffsOf(m[k], depth - 1) \ {<<>>}} ELSE {})
        ELSE {<<"keep">>, <<"add", Int("7")>>, <<"add", Str(<<120>>)>>}
      Entry(k, f) ==
        CASE f[1] = "remove"  -> <<[op |-> "remove", kt |-> "s", key |-> k]>>
          [] f[1] = "replace" -> <<[op |-> "replace", kt |-> "s", key |-> k, value |-> f[2]]>>
          [] f[1] = "add"     -> <<[op |-> "add", kt |-> "s", key |-> k, value |-> f[2]]>>
          [] f[1] = "patch"   -> <<[op |-> "patch", kt |-> "s", key |-> k, diff |-> f[2]]>>
          [] OTHER            -> <<>>
  IN {Entry(KeySeq[1], f1) \o Entry(KeySeq[2], f2) :
        f1 \in KeyFates(KeySeq[1]), f2 \in KeyFates(KeySeq[2])}
     \cup
     {Entry(KeySeq[2], f2) \o Entry(KeySeq[1], f1) :       \* order of entries is free
        f1 \in KeyFates(KeySeq[1]) \ {<<"keep">>}, f2 \in KeyFates(KeySeq[2]) \ {<<"keep">>}}

DiffsOf(x, depth) ==
  CASE x.t = "l" -> ListDiffs(x.e, depth)
    [] x.t = "s" -> StringDiffs(x.c, depth)
    [] x.t = "o" -> ObjDiffs(x.m, depth)
    [] OTHER     -> {<<>>}

Init == /\ a \in DocU
        /\ d = <<>>
        /\ r = Null
        /\ phase = "doc"

ChooseDiff == /\ phase = "doc"
              /\ \E dd \in DiffsOf(a, 1) :
                    /\ d' = dd
                    /\ r' = Patch(a, dd)
              /\ phase' = "patched"
              /\ UNCHANGED a

Next == ChooseDiff
Spec == Init /\ [][Next]_vars

(***************************************************************************)
(* Invariants                                                              *)
(***************************************************************************)
Patched == phase = "patched"

GenWellFormed == Patched => (WellFormed(a, d) /\ SchemaOK(d) /\ DiffPlainJSON(d))
PatchTotal    == Patched => r.t = a.t

Inserted(dd) == LET RECURSIVE S(_)
                    S(j) == IF j = 0 THEN 0 ELSE S(j - 1) +
                              (IF dd[j].op = "addrange" THEN Len(dd[j].valuelist.e) ELSE 0)
                IN S(Len(dd))
Removed(dd)  == LET RECURSIVE S(_)
                    S(j) == IF j = 0 THEN 0 ELSE S(j - 1) +
                              (IF dd[j].op = "removerange" THEN dd[j].length ELSE 0)
                IN S(Len(dd))
LengthLaw == (Patched /\ a.t = "l") => Len(r.e) = Len(a.e) - Removed(d) + Inserted(d)

FlattenLemma == (Patched /\ a.t = "s") => FlattenPatch(a.c, d) = r.c

ContractSat == Patched => AllowedDiff(a, r, {}, IF Eq(a, r) THEN <<>> ELSE d)

EmptyIsIdentity == (Patched /\ d = <<>>) => Eq(a, r)

\* state constraint of the "universe only" runs: the documents are enumerated (and printed), no diff is chosen
DocsOnly == phase # "doc"

\* printing (spec -> code replay, universe for pair enumeration)
Emit == EMIT =>
          IF phase = "doc" THEN PrintT("DOC " \o ToJson(a))
          ELSE PrintT("CASE " \o ToJson([a |-> a, d |-> d, r |-> r]))
=============================================================================
