---------------------------- MODULE NotebookEdits ---------------------------
(***************************************************************************)
(* Environment model: abstract notebooks and the edit scripts that relate  *)
(* a base notebook to a local and a remote version.                        *)
(*                                                                         *)
(* An abstract cell is                                                     *)
(*   [cid  |-> cell identity (becomes the cell id in 4.5 notebooks),       *)
(*    fam  |-> content family (which text the source derives from),        *)
(*    kind |-> "code" | "markdown" | "raw",                                 *)
(*    src  |-> 0..12 source variant: 0 family text, 1 small edit (stays    *)
(*             "strictly similar"), 2 moderate edit (only approximately    *)
(*             similar), 3 rewritten (dissimilar), 4 emptied, 5 / 6 two    *)
(*             far-apart lines edited (differently in 5 and 6), 7 a line   *)
(*             inserted before a line that also gets a character at        *)
(*             column 0, 8 only that character, 9 one line of a run of     *)
(*             identical adjacent lines deleted (nothing else changes),    *)
(*             10 only the last line edited (its ending, or lack of one,   *)
(*             kept), 11 the first two lines edited inside the line (at    *)
(*             column 0 / at the end), 12 the last line edited and its     *)
(*             line end toggled (added if missing, dropped if present),    *)
(*    outs |-> 0..7  output-list variant (code cells),                     *)
(*    md   |-> 0..5  cell metadata variant (2..4 share a tags list that    *)
(*             grows differently; 5 carries the "nbdime-conflicts" record  *)
(*             an earlier conflicted merge left behind),                   *)
(*    ec   |-> 0..2  execution count variant,                              *)
(*    att  |-> 0..3  attachments variant (markdown cells)]                 *)
(* and an abstract notebook is [minor, nbmd, cells] (nbmd 0..4: notebook   *)
(* metadata variant; 3 carries an "nbdime-conflicts" record, 4 is 3 with   *)
(* the conflict resolved and the record removed).  harness/concretize.py   *)
(* maps these to real notebooks, choosing content on either side of each   *)
(* heuristic threshold of the differ.                                      *)
(*                                                                         *)
(* Behaviours: Init picks a base; each step applies one edit action to the *)
(* local or the remote notebook, at most MaxL / MaxR edits per side.       *)
(* Every reachable state is a (base, local, remote) triple; the pairs      *)
(* (base, local) are the related pairs of C01/C14/C16.                     *)
(* TLC checks TypeOK and UniqueCids (the generator never produces two      *)
(* cells with the same identity in one notebook).                          *)
(***************************************************************************)
EXTENDS Naturals, Sequences, FiniteSets, TLC, Json

CONSTANTS MaxL, MaxR,    \* edits per side
          BaseIds,       \* which base templates to start from
          EMIT

VARIABLES base, local, remote, nl, nr, hist
vars == <<base, local, remote, nl, nr, hist>>

Cell(cid, fam, kind, src, outs, md, ec, att) ==
  [cid |-> cid, fam |-> fam, kind |-> kind, src |-> src, outs |-> outs,
   md |-> md, ec |-> ec, att |-> att]

Bases ==
  [ b1 |-> [minor |-> 5, nbmd |-> 0,
            cells |-> << Cell(1, 1, "code", 0, 1, 0, 1, 0),
                         Cell(2, 2, "markdown", 0, 0, 0, 0, 1),
                         Cell(3, 3, "code", 0, 2, 1, 2, 0) >>],
    b2 |-> [minor |-> 4, nbmd |-> 1,
            cells |-> << Cell(1, 1, "code", 0, 3, 0, 1, 0),
                         Cell(2, 2, "markdown", 0, 0, 2, 0, 0),
                         Cell(3, 4, "raw", 0, 0, 0, 0, 0) >>],
    b3 |-> [minor |-> 5, nbmd |-> 0,
            cells |-> << Cell(1, 5, "markdown", 0, 0, 0, 0, 0),
                         Cell(2, 1, "code", 0, 4, 0, 1, 0) >>],
    b4 |-> [minor |-> 2, nbmd |-> 2,
            cells |-> << Cell(1, 3, "code", 0, 2, 0, 2, 0),
                         Cell(2, 3, "code", 1, 2, 0, 1, 0),
                         Cell(3, 6, "markdown", 0, 0, 1, 0, 2),
                         Cell(4, 1, "code", 0, 0, 0, 0, 0) >> ],
    b5 |-> [minor |-> 0, nbmd |-> 0,
            cells |-> << Cell(1, 2, "markdown", 0, 0, 0, 0, 0) >>],
    b6 |-> [minor |-> 5, nbmd |-> 1, cells |-> << >>],
    \* the product of an earlier conflicted merge: conflict records in the notebook and in a cell's metadata
    b7 |-> [minor |-> 5, nbmd |-> 3,
            cells |-> << Cell(1, 1, "code", 0, 1, 5, 1, 0),
                         Cell(2, 2, "markdown", 0, 0, 0, 0, 0) >>] ]

NewCids == {8, 9}          \* identities available to inserted / duplicated cells
NewFams == {7, 8}          \* content families of inserted cells (both sides may pick the same)

CidsOf(nb) == {nb.cells[i].cid : i \in 1..Len(nb.cells)}

\* runs of new cells: sequences of <<family, source variant>>; the cell identity is derived
\* from the family so that the "same" new cell has the same id on both sides
Runs == << << <<7, 0>> >>,
           << <<8, 0>>, <<7, 0>> >>,
           << <<8, 0>>, <<7, 1>> >>,
           << <<21, 0>>, <<22, 0>>, <<7, 0>> >>,
           << <<21, 0>>, <<22, 0>>, <<7, 1>> >>,
           << <<22, 0>>, <<7, 1>>, <<8, 0>> >>,
           << <<7, 1>>, <<21, 0>> >>,
           << <<7, 0>>, <<8, 0>> >>,
           << <<7, 1>>, <<22, 0>> >> >>
RunKind(f) == IF f \in {7, 21} THEN "code" ELSE "markdown"
RunCells(run) == [k \in 1..Len(run) |->
                    Cell(40 + run[k][1], run[k][1], RunKind(run[k][1]), run[k][2],
                         IF RunKind(run[k][1]) = "code" THEN 1 ELSE 0, 0,
                         IF RunKind(run[k][1]) = "code" THEN 1 ELSE 0, 0)]
RunCids(run) == {40 + run[k][1] : k \in 1..Len(run)}

InsertAt(s, i, x) == SubSeq(s, 1, i - 1) \o <<x>> \o SubSeq(s, i, Len(s))   \* x becomes s[i]
RemoveAt(s, i)    == SubSeq(s, 1, i - 1) \o SubSeq(s, i + 1, Len(s))

(***************************************************************************)
(* Edit actions: each is a relation Edit(nb, nb2, label)                   *)
(***************************************************************************)
Edits(nb) ==
  LET n == Len(nb.cells)
      fresh == NewCids \ CidsOf(nb)
      newcid == IF fresh = {} THEN 0 ELSE CHOOSE c \in fresh : \A c2 \in fresh : c <= c2
      WithCells(cs) == [nb EXCEPT !.cells = cs]
      SetField(i, f, v) == WithCells([nb.cells EXCEPT ![i] = [@ EXCEPT ![f] = v]])
  IN
  \* insert a new cell
  (IF fresh = {} THEN {} ELSE
   { <<[a |-> "Insert", pos |-> p, fam |-> f, kind |-> k, src |-> s],
       WithCells(InsertAt(nb.cells, p,
             Cell(newcid, f, k, s, IF k = "code" THEN 1 ELSE 0, 0, IF k = "code" THEN 1 ELSE 0, 0)))>> :
       p \in 1..(n + 1), f \in NewFams, k \in {"code", "markdown"}, s \in {0, 1} })
  \cup
  \* insert a new markdown cell that carries typed metadata keys (tags, collapsed, scrolled) and, optionally, an
  \* attachment: two similar cells inserted at one position are merged key by key, optional keys on one side only
  (IF fresh = {} THEN {} ELSE
   \* (the identity is any fresh one: cells inserted independently on two branches get different ids)
   { <<[a |-> "InsertRich", pos |-> p, src |-> s, md |-> m, att |-> t, cid |-> c],
       WithCells(InsertAt(nb.cells, p, Cell(c, 7, "markdown", s, 0, m, 0, t)))>> :
       p \in 1..(n + 1), s \in {0, 1}, m \in {1, 2, 4}, t \in {0, 1}, c \in fresh })
  \cup
  { <<[a |-> "Delete", pos |-> i], WithCells(RemoveAt(nb.cells, i))>> : i \in 1..n }
  \cup
  \* replace a cell by a short run of new cells (removal + insertion at one position)
  { <<[a |-> "Replace", pos |-> i, run |-> ri],
      WithCells(SubSeq(nb.cells, 1, i - 1) \o RunCells(Runs[ri]) \o SubSeq(nb.cells, i + 1, n))>> :
      i \in 1..n, ri \in {q \in 1..3 : RunCids(Runs[q]) \cap CidsOf(nb) = {}} }
  \cup
  \* insert a run of several new cells at one position (concurrent insertion of runs of
  \* different length whose tails are similar is the interesting case for the merger)
  { <<[a |-> "InsertRun", pos |-> p, run |-> ri],
      WithCells(SubSeq(nb.cells, 1, p - 1) \o RunCells(Runs[ri]) \o SubSeq(nb.cells, p, n))>> :
      p \in 1..(n + 1), ri \in {q \in 1..Len(Runs) : RunCids(Runs[q]) \cap CidsOf(nb) = {}} }
  \cup
  { <<[a |-> "Move", from |-> i, to |-> j],
      WithCells(InsertAt(RemoveAt(nb.cells, i), j, nb.cells[i]))>> :
      i \in 1..n, j \in 1..n }
  \cup
  (IF fresh = {} THEN {} ELSE
   { <<[a |-> "Duplicate", pos |-> i],
       WithCells(InsertAt(nb.cells, i + 1,
                 [nb.cells[i] EXCEPT !.cid = newcid]))>> :
       i \in 1..n })
  \cup
  { <<[a |-> "EditSource", pos |-> i, v |-> v], SetField(i, "src", v)>> :
      i \in 1..n, v \in 0..4 }
  \cup
  \* fine-grained edits inside lines (first cell only, to keep the state space small): 5 / 6 edit the same two
  \* far-apart lines differently; 7 inserts a line before the line 8 edits at column 0, and makes that edit too
  (IF n = 0 THEN {} ELSE
   { <<[a |-> "EditSource", pos |-> 1, v |-> v], SetField(1, "src", v)>> : v \in 5..12 })
  \cup
  \* convert a cell to another type, keeping its identity (code <-> markdown: outputs / execution count go or come)
  { <<[a |-> "ChangeKind", pos |-> i],
      SetField(i, "kind", IF nb.cells[i].kind = "code" THEN "markdown" ELSE "code")>> : i \in 1..n }
  \cup
  \* ... or to a raw cell (the two sides may convert one cell to two different types)
  { <<[a |-> "ChangeKindRaw", pos |-> i], SetField(i, "kind", "raw")>> : i \in {q \in 1..n : nb.cells[q].kind # "raw"} }
  \cup
  \* give a cell a new identity (both sides may re-id the same cell differently)
  { <<[a |-> "ReId", pos |-> i, v |-> c], SetField(i, "cid", c)>> : i \in 1..n, c \in fresh }
  \cup
  { <<[a |-> "EditOutputs", pos |-> i, v |-> v], SetField(i, "outs", v)>> :
      i \in {q \in 1..n : nb.cells[q].kind = "code"}, v \in 0..7 }
  \cup
  { <<[a |-> "EditCellMeta", pos |-> i, v |-> v], SetField(i, "md", v)>> : i \in 1..n, v \in 0..5 }
  \cup
  \* the numbers in a cell's / the notebook's metadata change their JSON type only (1 -> 1.0; variants 10 + v): for
  \* Python's == nothing changed, for JSON the documents differ
  { <<[a |-> "RetypeCellMeta", pos |-> i], SetField(i, "md", nb.cells[i].md + 10)>> : i \in {q \in 1..n : nb.cells[q].md \in 1..4} }
  \cup
  (IF nb.nbmd = 2 THEN { <<[a |-> "RetypeNbMeta"], [nb EXCEPT !.nbmd = 12]>> } ELSE {})
  \cup
  { <<[a |-> "SetExecCount", pos |-> i, v |-> v], SetField(i, "ec", v)>> :
      i \in {q \in 1..n : nb.cells[q].kind = "code"}, v \in 0..2 }
  \cup
  { <<[a |-> "EditAttachment", pos |-> i, v |-> v], SetField(i, "att", v)>> :
      i \in {q \in 1..n : nb.cells[q].kind = "markdown"}, v \in 0..3 }
  \cup
  { <<[a |-> "EditNbMeta", v |-> v], [nb EXCEPT !.nbmd = v]>> : v \in 0..4 }
  \cup
  (IF nb.minor < 5 THEN { <<[a |-> "BumpMinor"], [nb EXCEPT !.minor = @ + 1]>> } ELSE {})
  \cup
  (IF nb.minor < 4 THEN { <<[a |-> "BumpMinor2"], [nb EXCEPT !.minor = @ + 2]>> } ELSE {})
  \cup
  \* the notebook re-saved in an older format (from 4.5: the cell ids go)
  (IF nb.minor > 1 THEN { <<[a |-> "LowerMinor"], [nb EXCEPT !.minor = @ - 1]>> } ELSE {})

\* an edit that changes nothing is not an edit
RealEdits(nb) == {e \in Edits(nb) : e[2] # nb}

Init == /\ \E b \in BaseIds : base = Bases[b]
        /\ local = base
        /\ remote = base
        /\ nl = 0
        /\ nr = 0
        /\ hist = <<>>

EditLocal  == /\ nl < MaxL
              /\ nr = 0                          \* canonical order: local edits first
              /\ \E e \in RealEdits(local) :
                    /\ local' = e[2]
                    /\ hist' = Append(hist, [side |-> "local", edit |-> e[1]])
              /\ nl' = nl + 1
              /\ UNCHANGED <<base, remote, nr>>

EditRemote == /\ nr < MaxR
              /\ \E e \in RealEdits(remote) :
                    /\ remote' = e[2]
                    /\ hist' = Append(hist, [side |-> "remote", edit |-> e[1]])
              /\ nr' = nr + 1
              /\ UNCHANGED <<base, local, nl>>

Next == EditLocal \/ EditRemote
Spec == Init /\ [][Next]_vars

\* hist is an observation variable: hide it from the state fingerprint
View == <<base, local, remote, nl, nr>>

IsNb(nb) == /\ nb.minor \in 0..5
            /\ nb.nbmd \in (0..4) \cup {12}
            /\ \A i \in 1..Len(nb.cells) :
                  /\ nb.cells[i].kind \in {"code", "markdown", "raw"}
                  /\ nb.cells[i].src \in 0..12 /\ nb.cells[i].outs \in 0..7
                  /\ nb.cells[i].md \in (0..5) \cup (11..14) /\ nb.cells[i].ec \in 0..2 /\ nb.cells[i].att \in 0..3
TypeOK == IsNb(base) /\ IsNb(local) /\ IsNb(remote)

UniqueCids == \A nb \in {base, local, remote} :
                \A i, j \in 1..Len(nb.cells) : i # j => nb.cells[i].cid # nb.cells[j].cid

Emit == EMIT => PrintT("TRIPLE " \o ToJson([base |-> base, local |-> local, remote |-> remote,
                                            hist |-> hist]))
=============================================================================
