------------------------------- MODULE MergeCmd -----------------------------
(***************************************************************************)
(* State machine of `nbmerge` and of `git-nbmergedriver merge` (C08).      *)
(*                                                                         *)
(* One behaviour = one run of the command.  The scenario (mode, shape of   *)
(* the inputs, whether the library merge leaves an unresolved conflict)    *)
(* is fixed at Init.  Each program step of main_merge is one action; a     *)
(* fault (I/O error, out-of-memory, interrupt, process kill) may strike    *)
(* once, at the boundary before any step.                                  *)
(*                                                                         *)
(*   mode  "out"        nbmerge --out F                                    *)
(*         "stdout"     nbmerge (result to standard output)                *)
(*         "decisions"  nbmerge --decisions --out F                        *)
(*         "driver"     git-nbmergedriver merge %O %A %B %L %P  (F = %A)   *)
(*   shape "normal" | "base_null" (added on both sides) | "empty_base"     *)
(*         | "local_null" | "remote_null" | "both_null"                    *)
(*   out   abstract content of the output location F:                      *)
(*         "orig" as before the run (possibly absent), "trunc" emptied,    *)
(*         "partial" a proper prefix of the result, "complete" the result, *)
(*         "removed" deleted (agreed deletion)                             *)
(*   exit  "none" running | "zero" | "nonzero" | "signal"                  *)
(***************************************************************************)
EXTENDS Naturals, Sequences, FiniteSets, TLC, Json

CONSTANTS Modes, Shapes, Kinds, MaxWrites, EMIT

VARIABLES mode, shape, conf, pc, out, exit, fault, nw
vars == <<mode, shape, conf, pc, out, exit, fault, nw>>

NoFault == [step |-> "none", kind |-> "none", k |-> 0]

\* program order of main_merge
ReadSteps  == <<"ReadBase", "ReadLocal", "ReadRemote">>
MergeSteps == <<"DiffLocal", "DiffRemote", "Decide", "Apply">>

HasOutFile == mode \in {"out", "decisions", "driver"}

NextPc(p) ==
  CASE p = "Start"      -> IF shape = "both_null" THEN "ReadBaseDel" ELSE "ReadBase"
    [] p = "ReadBaseDel" -> IF HasOutFile /\ mode # "decisions" THEN "RemoveOut" ELSE "Exit"
    [] p = "RemoveOut"  -> "Exit"
    [] p = "ReadBase"   -> "ReadLocal"
    [] p = "ReadLocal"  -> "ReadRemote"
    [] p = "ReadRemote" -> "DiffLocal"
    [] p = "DiffLocal"  -> "DiffRemote"
    [] p = "DiffRemote" -> "Decide"
    [] p = "Decide"     -> "Apply"
    [] p = "Apply"      -> IF mode = "decisions" THEN "OpenOut"
                           ELSE "Serialize"
    [] p = "Serialize"  -> IF mode = "stdout" THEN "WriteStdout" ELSE "OpenOut"
    [] p = "WriteStdout" -> "Exit"
    [] p = "OpenOut"    -> "Write"
    [] p = "Write"      -> "Close"         \* after the last write
    [] p = "Close"      -> "Exit"

Steps == {"ReadBaseDel", "RemoveOut", "ReadBase", "ReadLocal", "ReadRemote", "DiffLocal", "DiffRemote",
          "Decide", "Apply", "Serialize", "WriteStdout", "OpenOut", "Write", "Close"}

\* steps at which the output file has not been touched yet
BeforeOpen(s) == s \in {"ReadBaseDel", "ReadBase", "ReadLocal", "ReadRemote", "DiffLocal", "DiffRemote",
                        "Decide", "Apply", "Serialize", "WriteStdout", "OpenOut", "RemoveOut"}

Init ==
  /\ mode \in Modes
  /\ shape \in Shapes
  /\ conf \in BOOLEAN
  /\ (shape = "both_null" => ~conf)
  /\ (mode = "driver" => shape \in {"normal", "empty_base"})     \* git only calls the driver with three files
  /\ pc = "Start"
  /\ out = "orig"
  /\ exit = "none"
  /\ fault = NoFault
  /\ nw = 0

Running == exit = "none"

\* effect of executing step p without fault
Effect(p) ==
  CASE p = "OpenOut"   -> out' = "trunc" /\ nw' = 0
    [] p = "RemoveOut" -> out' = "removed" /\ UNCHANGED nw
    [] p = "Close"     -> out' = "complete" /\ UNCHANGED nw
    [] OTHER           -> UNCHANGED <<out, nw>>

Step ==
  /\ Running
  /\ pc \in Steps \cup {"Start"}
  /\ pc # "Write"
  /\ Effect(pc)
  /\ pc' = NextPc(pc)
  /\ UNCHANGED <<mode, shape, conf, exit, fault>>

\* the result is written in 1..MaxWrites chunks; data reaches the file at the latest at Close
WriteChunk ==
  /\ Running /\ pc = "Write"
  /\ nw < MaxWrites
  /\ nw' = nw + 1
  /\ out' \in {out, "partial"}                       \* buffered or flushed
  /\ pc' \in (IF nw + 1 = MaxWrites THEN {"Close"} ELSE {"Write", "Close"})
  /\ UNCHANGED <<mode, shape, conf, exit, fault>>

Finish ==
  /\ Running /\ pc = "Exit"
  /\ exit' = IF conf THEN "nonzero" ELSE "zero"
  /\ UNCHANGED <<mode, shape, conf, pc, out, fault, nw>>

\* a Python-level fault before step pc: the exception propagates, the interpreter exits non-zero.
\* A file that is already open is closed by its context manager, flushing what was buffered.
Raise(kind) ==
  /\ Running /\ fault = NoFault
  /\ pc \in Steps
  /\ fault' = [step |-> pc, kind |-> kind, k |-> nw]
  \* an uncaught KeyboardInterrupt makes CPython re-raise SIGINT on itself: death by signal
  /\ exit' \in (IF kind = "Interrupt" THEN {"nonzero", "signal"} ELSE {"nonzero"})
  /\ out' \in (IF pc \in {"Write", "Close"} THEN {"trunc", "partial", "complete"} ELSE {out})
  /\ UNCHANGED <<mode, shape, conf, pc, nw>>

\* the process is killed before step pc: nothing more happens
Kill ==
  /\ Running /\ fault = NoFault
  /\ pc \in Steps
  /\ fault' = [step |-> pc, kind |-> "Kill", k |-> nw]
  /\ exit' = "signal"
  /\ out' \in (IF pc \in {"Write", "Close"} THEN {out, "trunc", "partial"} ELSE {out})
  /\ UNCHANGED <<mode, shape, conf, pc, nw>>

Next == Step \/ WriteChunk \/ Finish \/ (\E kd \in Kinds \ {"Kill"} : Raise(kd)) \/ ("Kill" \in Kinds /\ Kill)
Spec == Init /\ [][Next]_vars

Finished == exit # "none"

(***************************************************************************)
(* Properties (C08)                                                        *)
(***************************************************************************)
\* exit status zero iff the command finished and no unresolved conflict remains
ExitZeroIffNoConflict ==
  Finished => ((exit = "zero") <=> (fault = NoFault /\ ~conf))
\* whenever they finish they leave the complete result at the designated output
FinishedLeavesResult ==
  (Finished /\ fault = NoFault) =>
     CASE shape = "both_null" -> out = (IF HasOutFile /\ mode # "decisions" THEN "removed" ELSE "orig")
       [] mode = "stdout"     -> out = "orig"
       [] OTHER               -> out = "complete"
\* a failed or killed run never reports success
FaultNeverSucceeds == (Finished /\ fault # NoFault) => exit # "zero"
\* a failure before the result is written leaves the output location untouched
EarlyFaultLeavesOutput == (Finished /\ fault # NoFault /\ BeforeOpen(fault.step)) => out = "orig"
\* the output is never left in a state other than the five abstract ones
TypeOK == /\ out \in {"orig", "trunc", "partial", "complete", "removed"}
          /\ exit \in {"none", "zero", "nonzero", "signal"}
          /\ nw \in 0..MaxWrites

Emit == (EMIT /\ Finished) =>
          PrintT("TERM " \o ToJson([mode |-> mode, shape |-> shape, conf |-> conf, fault |-> fault,
                                    exit |-> exit, out |-> out]))
=============================================================================
