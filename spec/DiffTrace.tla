----------------------------- MODULE DiffTrace ------------------------------
(***************************************************************************)
(* Trace specification for the differ/patcher contract (C01, C02, C11,     *)
(* C13 frame conditions, C14, C15 patch agreement).                        *)
(*                                                                         *)
(* One NDJSON line per public call return of the real code:                *)
(*   tid      event id                                                      *)
(*   a, b     the two documents (tagged JSON)                               *)
(*   d        the diff the implementation returned      (absent if raised)  *)
(*   raised   [type, where] if the differ raised                            *)
(*   p        result of nbdime's own patch(a, d)         (absent if raised) *)
(*   pts      result of the TypeScript patch(a, d)       (optional)         *)
(*   pfile    notebook rebuilt through nbdiff --out / nbpatch files (opt.)  *)
(*   dfile    diff as read back from the file written by nbdiff  (optional) *)
(*   aAfter, bAfter   the arguments re-encoded after the call (C13)         *)
(*   ign      sequence of ignored categories (C14), absent = none           *)
(*   expectEmpty  TRUE when a and b differ only in ignored non-source parts *)
(* The contract action is DiffContract!ComputeDiff: the observed d must be *)
(* a member of AllowedDiffs(a, b, ign).  Each conjunct is a named clause   *)
(* and every false clause is printed; the walk never stops early.          *)
(***************************************************************************)
EXTENDS DiffContract, Json, IOUtils

Trace == ndJsonDeserialize(IOEnv.TRACE_FILE)

VARIABLE i

Has(ev, f) == f \in DOMAIN ev

Ign(ev) == IF Has(ev, "ign") THEN {ev.ign[k] : k \in 1..Len(ev.ign)} ELSE {}

Clauses(ev) ==
  IF Has(ev, "raised") THEN << <<"Completes", FALSE>> >>
  ELSE
  LET d    == ev.d
      wf   == WellFormed(ev.a, d)
      ign  == Ign(ev)
      pa   == IF wf THEN Patch(ev.a, d) ELSE Null
      same == Eq(ev.a, ev.b)
  IN << <<"Completes",   TRUE>>,
        <<"SchemaOK",    SchemaOK(d)>>,
        <<"PlainJSON",   DiffPlainJSON(d)>>,
        <<"WellFormed",  wf>>,
        <<"RoundTrip",   wf /\ RoundTripOK(pa, ev.b, ign)>>,
        <<"RoundTripModNum", wf /\ RoundTripModNumOK(pa, ev.b, ign)>>,
        <<"PyPatch",     Has(ev, "p") /\ RoundTripOK(ev.p, ev.b, ign)>>,
        <<"PyPatchIsSpecPatch", (wf /\ Has(ev, "p")) => Eq(ev.p, pa)>>,
        \* the diff is a value: applying it again gives the same notebook, and applying it does not change it
        <<"RepeatPatch", Has(ev, "p") => (Has(ev, "p2") /\ RoundTripOK(ev.p2, ev.b, ign))>>,
        <<"DiffUnchangedByPatch", Has(ev, "dAfter") => ev.dAfter = d>>,
        <<"EmptyOnlyIfSame", (ign = {} /\ Len(d) = 0) => same>>,
        <<"SameOnlyIfEmpty", same => Len(d) = 0>>,
        <<"NoIgnoredPath", NoIgnoredPath(d, ign)>>,
        <<"IgnoredOnlyEmpty", (Has(ev, "expectEmpty") /\ ev.expectEmpty) => Len(d) = 0>>,
        <<"TsPatchIsSpecPatch", (Has(ev, "pts") /\ Has(ev, "exact")) => (wf /\ Eq(ev.pts, pa))>>,
        \* pjs: nbdime's Python patch result encoded the way JavaScript sees numbers (1.0 and 1 are one value)
        <<"TsPatchIsPyPatch", Has(ev, "pts") => (Has(ev, "pjs") /\ Eq(ev.pts, ev.pjs))>>,
        <<"TsAccepts",   ~Has(ev, "tsraised")>>,
        <<"FilePatch",   Has(ev, "pfile") => Eq(ev.pfile, ev.b)>>,
        <<"FileDiffSame", Has(ev, "dfile") => (WellFormed(ev.a, ev.dfile) /\ Eq(Patch(ev.a, ev.dfile), pa))>>,
        <<"ArgsUnchanged", (Has(ev, "aAfter") => Eq(ev.aAfter, ev.a)) /\ (Has(ev, "bAfter") => Eq(ev.bAfter, ev.b))>>
     >>

\* NB: written with IF and compared with TRUE below so that TLC evaluates it as a
\* plain Boolean expression (a disjunction inside an action would be explored
\* branch by branch).
Report(ev) ==
  LET cs == Clauses(ev) IN
  \A k \in 1..Len(cs) : IF cs[k][2] THEN TRUE ELSE PrintT(<<"FAIL", ev.tid, cs[k][1]>>)

Init == i = 1
Next == /\ i <= Len(Trace)
        /\ Report(Trace[i]) = TRUE
        /\ i' = i + 1
Spec == Init /\ [][Next]_i

Accepted == TLCGet("stats").diameter = Len(Trace) + 1
=============================================================================
