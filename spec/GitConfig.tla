------------------------------ MODULE GitConfig ------------------------------
(***************************************************************************)
(* Git integration set-up (C18): what `nbdime config-git`, and the          *)
(* `config --enable/--disable` sub-commands of git-nbdiffdriver,           *)
(* git-nbmergedriver, git-nbdifftool and git-nbmergetool are MEANT to do   *)
(* to git's configuration, per scope (repository / global).                *)
(*                                                                         *)
(* cfg[s] for scope s is a record                                          *)
(*   ddrv, mdrv    nbdime's diff / merge driver section present            *)
(*   dtcmd, mtcmd  difftool.nbdime.cmd / mergetool.nbdime.cmd present      *)
(*   gui, mtool    diff.guitool / merge.tool in {"unset","nbdime","other"} *)
(*   dprompt, mprompt   difftool.prompt / mergetool.prompt in              *)
(*                      {"unset","true","false"}                           *)
(*   afile         attributes file exists                                  *)
(*   aforeign      it holds unrelated rules                                *)
(*   adiff, amerge it holds nbdime's `*.ipynb diff=` / `merge=` line       *)
(*   foreign       an unrelated config key (always "set": must stay)       *)
(* Every command is a total function Apply(cmd, cfg).                      *)
(***************************************************************************)
EXTENDS Naturals, Sequences, FiniteSets, TLC, Json

CONSTANTS MaxLen, EMIT, FullInit, Cover

VARIABLES cfg, hist, init0
vars == <<cfg, hist, init0>>

Scopes == {"repo", "global"}
Tools == {"unset", "nbdime", "other"}
Prompts == {"unset", "true", "false"}

ScopeStates ==
  [ddrv : BOOLEAN, mdrv : BOOLEAN, dtcmd : BOOLEAN, mtcmd : BOOLEAN,
   gui : Tools, mtool : Tools, dprompt : Prompts, mprompt : Prompts,
   afile : BOOLEAN, aforeign : BOOLEAN, adiff : BOOLEAN, amerge : BOOLEAN, foreign : {"set"}]

WellFormedScope(x) == (~x.afile) => (~x.aforeign /\ ~x.adiff /\ ~x.amerge)

\* initial configurations of the property's quantifier: nothing of nbdime configured yet except
\* possibly the default-tool entries and attributes lines
InitScopes ==
  {x \in ScopeStates :
     /\ WellFormedScope(x)
     /\ ~x.ddrv /\ ~x.mdrv /\ ~x.dtcmd /\ ~x.mtcmd
     /\ (x.adiff = x.amerge)}

Commands ==
  {[tool |-> t, enable |-> e, scope |-> s, dflt |-> d] :
      t \in {"all", "diffdriver", "mergedriver", "difftool", "mergetool"}, e \in BOOLEAN, s \in Scopes, d \in BOOLEAN}

ValidCommand(c) == c.dflt => (c.enable /\ c.tool \in {"difftool", "mergetool"})

EnableDiffDriver(x)  == [x EXCEPT !.ddrv = TRUE, !.afile = TRUE, !.adiff = TRUE]
EnableMergeDriver(x) == [x EXCEPT !.mdrv = TRUE, !.afile = TRUE, !.amerge = TRUE]
EnableDiffTool(x, d) == [x EXCEPT !.dtcmd = TRUE, !.dprompt = "false", !.gui = IF d THEN "nbdime" ELSE @]
EnableMergeTool(x, d) == [x EXCEPT !.mtcmd = TRUE, !.mprompt = "false", !.mtool = IF d THEN "nbdime" ELSE @]
DisableDiffDriver(x)  == [x EXCEPT !.ddrv = FALSE]
DisableMergeDriver(x) == [x EXCEPT !.mdrv = FALSE]
\* disabling a tool only withdraws nbdime as the default tool; a setting that points at another tool stays
DisableDiffTool(x)  == [x EXCEPT !.gui = IF @ = "nbdime" THEN "unset" ELSE @]
DisableMergeTool(x) == [x EXCEPT !.mtool = IF @ = "nbdime" THEN "unset" ELSE @]

ApplyScope(c, x) ==
  IF c.enable
  THEN CASE c.tool = "diffdriver"  -> EnableDiffDriver(x)
         [] c.tool = "mergedriver" -> EnableMergeDriver(x)
         [] c.tool = "difftool"    -> EnableDiffTool(x, c.dflt)
         [] c.tool = "mergetool"   -> EnableMergeTool(x, c.dflt)
         [] c.tool = "all"         -> EnableMergeTool(EnableDiffTool(EnableMergeDriver(EnableDiffDriver(x)), FALSE), FALSE)
  ELSE CASE c.tool = "diffdriver"  -> DisableDiffDriver(x)
         [] c.tool = "mergedriver" -> DisableMergeDriver(x)
         [] c.tool = "difftool"    -> DisableDiffTool(x)
         [] c.tool = "mergetool"   -> DisableMergeTool(x)
         [] c.tool = "all"         -> DisableMergeTool(DisableDiffTool(DisableMergeDriver(DisableDiffDriver(x))))

Apply(c, g) == [g EXCEPT ![c.scope] = ApplyScope(c, g[c.scope])]

Init ==
  /\ IF FullInit
     THEN cfg \in [Scopes -> InitScopes]
     ELSE \E x \in {z \in InitScopes : Cover => (z.dprompt = z.mprompt /\ (z.afile => z.aforeign))},
             y \in {z \in InitScopes : ~z.afile /\ z.dprompt = "unset" /\ z.mprompt = "unset"} :
             \/ cfg = [s \in Scopes |-> IF s = "repo" THEN x ELSE y]
             \/ cfg = [s \in Scopes |-> IF s = "global" THEN x ELSE y]
  /\ hist = <<>>
  /\ init0 = cfg

Next ==
  /\ Len(hist) < MaxLen
  /\ \E c \in Commands :
        /\ ValidCommand(c)
        /\ cfg' = Apply(c, cfg)
        /\ hist' = Append(hist, [cmd |-> c, cfg |-> cfg'])
        /\ UNCHANGED init0
Spec == Init /\ [][Next]_vars
View == IF EMIT THEN <<cfg, hist, init0>> ELSE <<cfg, Len(hist)>>

(***************************************************************************)
(* Properties                                                              *)
(***************************************************************************)
TypeOK == \A s \in Scopes : cfg[s] \in ScopeStates /\ WellFormedScope(cfg[s])

\* running a command again changes nothing
Idempotent == \A c \in Commands : ValidCommand(c) => Apply(c, Apply(c, cfg)) = Apply(c, cfg)

\* a command never touches the other scope, unrelated keys, unrelated attributes rules, and
\* never alters or removes a default-tool setting that points at another tool unless
\* explicitly asked to make nbdime the default
ForeignUntouched ==
  \A c \in Commands : ValidCommand(c) =>
    LET g == Apply(c, cfg) IN
    /\ \A s \in Scopes \ {c.scope} : g[s] = cfg[s]
    /\ g[c.scope].foreign = cfg[c.scope].foreign
    /\ g[c.scope].aforeign = cfg[c.scope].aforeign
    /\ (cfg[c.scope].afile => g[c.scope].afile)
    /\ (cfg[c.scope].gui = "other" /\ ~(c.dflt /\ c.tool = "difftool")) => g[c.scope].gui = "other"
    /\ (cfg[c.scope].mtool = "other" /\ ~(c.dflt /\ c.tool = "mergetool")) => g[c.scope].mtool = "other"

\* enabling adds only nbdime's own entries (+ no-prompt defaults) and one attributes line per driver
EnableAddsOnlyOwn ==
  \A c \in Commands : (ValidCommand(c) /\ c.enable) =>
    LET x == cfg[c.scope] y == Apply(c, cfg)[c.scope] IN
    /\ (x.ddrv => y.ddrv) /\ (x.mdrv => y.mdrv) /\ (x.dtcmd => y.dtcmd) /\ (x.mtcmd => y.mtcmd)
    /\ (x.adiff => y.adiff) /\ (x.amerge => y.amerge)
    /\ (y.dprompt # x.dprompt => y.dprompt = "false")
    /\ (y.mprompt # x.mprompt => y.mprompt = "false")

\* disabling everything un-routes notebooks from nbdime's drivers in that scope
DisableUnroutes ==
  \A s \in Scopes :
    LET y == Apply([tool |-> "all", enable |-> FALSE, scope |-> s, dflt |-> FALSE], cfg)[s] IN
    ~y.ddrv /\ ~y.mdrv /\ y.gui # "nbdime" /\ y.mtool # "nbdime"

Emit == (EMIT /\ Len(hist) = MaxLen) =>
          PrintT("TRACE " \o ToJson([init |-> init0, steps |-> hist]))
=============================================================================
