---------------------------- MODULE SeqDiffModel -----------------------------
(***************************************************************************)
(* Design-level check of the transcribed list differ (SeqDiffAlgo) on every *)
(* pair of lists over 4 atoms up to MaxLen: the diff is well-formed, exact  *)
(* (Patch(a, d) = b, type aware), optimal (keeps LLCS(a, b) items), empty   *)
(* iff a = b, and satisfies the differ contract AllowedDiff.  With EMIT the *)
(* diffs are printed and compared with what nbdime.diff returns (drift).   *)
(***************************************************************************)
EXTENDS DiffContract, SeqDiffAlgo, Json
CONSTANTS MaxLen, EMIT
VARIABLES a, b
vars == <<a, b>>
Atoms == {Int("1"), Int("2"), Flt("1.0"), Str(<<120>>)}
RECURSIVE SeqsUpTo(_, _)
SeqsUpTo(S, n) == IF n = 0 THEN {<<>>}
                  ELSE LET P == SeqsUpTo(S, n - 1)
                       IN P \cup {Append(s, x) : s \in {q \in P : Len(q) = n - 1}, x \in S}
Init == a \in SeqsUpTo(Atoms, MaxLen) /\ b \in SeqsUpTo(Atoms, MaxLen)
Next == UNCHANGED vars
Spec == Init /\ [][Next]_vars
D == ListDiff(a, b)
Correct == WellFormed(List(a), D) /\ Eq(Patch(List(a), D), List(b))
Optimal == Kept(Len(a), D) = LLCS(a, b)
EmptyIffEqual == (Len(D) = 0) <=> Eq(List(a), List(b))
InContract == AllowedDiff(List(a), List(b), {}, D)
Emit == EMIT => PrintT("DIFF " \o ToJson([a |-> List(a), b |-> List(b), d |-> D]))
=============================================================================
