------------------------------- MODULE GitRefs -------------------------------
(***************************************************************************)
(* Environment model for C17: a small git repository.                      *)
(*   wt, idx   working tree and index: path -> content id (0 = absent)     *)
(*   commits   sequence of committed trees (commits[Len] is HEAD)          *)
(*   nc        next fresh content id (every edit writes new content)       *)
(* Actions: Edit, Remove (working tree), Stage (git add / git rm --cached  *)
(* as appropriate), Move (git mv), Commit.  Every reachable state is a     *)
(* repository against which `changed_notebooks` is queried for the ref     *)
(* pairs commit/commit, commit/index, commit/working tree, index/working   *)
(* tree, from the root or a sub-directory, with and without path filters.  *)
(* The harness replays each behaviour with real git and checks after every *)
(* step that git's trees (ls-tree, ls-files -s, files on disk) equal the   *)
(* model's: this validates the model of git itself.                        *)
(***************************************************************************)
EXTENDS Naturals, Sequences, FiniteSets, TLC, Json

CONSTANTS MaxLen, EMIT

VARIABLES wt, idx, commits, nc, hist
vars == <<wt, idx, commits, nc, hist>>

Paths == {"n1.ipynb", "d/n2.ipynb", "d/e/n3.ipynb", "d/t.txt", "m.ipynb", "d/m2.ipynb"}
\* rename targets
MoveTo(p) == CASE p = "n1.ipynb" -> "d/m2.ipynb"
               [] p = "d/n2.ipynb" -> "m.ipynb"
               [] OTHER -> "none"

Tree0 == [p \in Paths |-> IF p \in {"n1.ipynb", "d/n2.ipynb", "d/t.txt"} THEN 1 ELSE 0]

Init == /\ wt = Tree0 /\ idx = Tree0
        /\ commits = <<Tree0>>
        /\ nc = 2
        /\ hist = <<>>

Rec(a) == hist' = Append(hist, a)

Edit(p) == /\ p \in {"n1.ipynb", "d/n2.ipynb", "d/e/n3.ipynb", "d/t.txt", "m.ipynb", "d/m2.ipynb"}
           /\ (wt[p] # 0 \/ p \in {"d/e/n3.ipynb", "n1.ipynb", "d/n2.ipynb", "d/t.txt"})   \* edit or (re)create
           /\ wt' = [wt EXCEPT ![p] = nc]
           /\ nc' = nc + 1
           /\ Rec([a |-> "edit", p |-> p, c |-> nc])
           /\ UNCHANGED <<idx, commits>>
Remove(p) == /\ wt[p] # 0
             /\ wt' = [wt EXCEPT ![p] = 0]
             /\ Rec([a |-> "rm", p |-> p])
             /\ UNCHANGED <<idx, commits, nc>>
Stage(p) == /\ idx[p] # wt[p]
            /\ idx' = [idx EXCEPT ![p] = wt[p]]
            /\ Rec([a |-> "stage", p |-> p])
            /\ UNCHANGED <<wt, commits, nc>>
Move(p) == LET q == MoveTo(p) IN
           /\ q # "none"
           /\ wt[p] # 0 /\ idx[p] # 0            \* tracked and present
           /\ wt[q] = 0 /\ idx[q] = 0
           /\ wt' = [wt EXCEPT ![q] = wt[p], ![p] = 0]
           /\ idx' = [idx EXCEPT ![q] = idx[p], ![p] = 0]
           /\ Rec([a |-> "mv", p |-> p, q |-> q])
           /\ UNCHANGED <<commits, nc>>
Commit == /\ idx # commits[Len(commits)]
          /\ commits' = Append(commits, idx)
          /\ Rec([a |-> "commit"])
          /\ UNCHANGED <<wt, idx, nc>>

Next == /\ Len(hist) < MaxLen
        /\ \/ \E p \in Paths : Edit(p) \/ Remove(p) \/ Stage(p) \/ Move(p)
           \/ Commit
Spec == Init /\ [][Next]_vars

TypeOK == /\ \A p \in Paths : wt[p] \in 0..nc /\ idx[p] \in 0..nc
          /\ Len(commits) >= 1
\* content ids are never reused for different writes
FreshContents == \A p \in Paths : wt[p] < nc /\ idx[p] < nc

ToSeq(S) == LET RECURSIVE E(_)
                E(X) == IF X = {} THEN <<>> ELSE LET x == CHOOSE y \in X : TRUE IN <<x>> \o E(X \ {x})
            IN E(S)
TreeJson(t) == [p \in Paths |-> t[p]]
Emit == (EMIT /\ Len(hist) = MaxLen) =>
          PrintT("REPO " \o ToJson([hist |-> hist, wt |-> TreeJson(wt), idx |-> TreeJson(idx),
                                    commits |-> [k \in 1..Len(commits) |-> TreeJson(commits[k])]]))
=============================================================================
