----------------------------- MODULE MergeTrace -----------------------------
(***************************************************************************)
(* Trace specification for the merger contract (C03-C07, C09-C11, C13,     *)
(* C15 decision application).  One NDJSON line per merge call return:      *)
(*   tid, base, local, remote                                              *)
(*   raised      [type, where, msg]          if the merge raised           *)
(*   D, merged   decisions and merged document                             *)
(*   valid       nbformat's verdict on merged for its declared minor       *)
(*   jsvalid     jsonschema's verdict on the JSON round-tripped decision   *)
(*               list against the published merge_format.schema.json       *)
(*   ld, rd      the base->local / base->remote diffs (symmetry carve-out) *)
(*   law         "identity" | "onesided" | "agreement"  + expected         *)
(*   sw          [raised?, D, merged] the same merge with roles swapped    *)
(*   disjoint    TRUE + expected: the generator guarantees disjoint edits  *)
(*   flag        TRUE + variants <<l, r>>: both sides rewrote the same line*)
(*   allside     TRUE when all-local / all-remote clauses apply            *)
(*   toolD / toolDnoT  decisions of the same triple with conflicts left    *)
(*               open (strategy mergetool; transients ignored / not)       *)
(*   side        "base" | "local" | "remote" for use-* runs, with toolkey  *)
(*               naming which of the two open-conflict lists applies       *)
(*   lines       TRUE when the line clauses (C07/C10) apply                *)
(*   tsm         merged document computed by the TypeScript applier (C15)  *)
(*   after       <<base, local, remote>> re-encoded after the call (C13)   *)
(***************************************************************************)
EXTENDS MergeContract, Json

Trace == ndJsonDeserialize(IOEnv.TRACE_FILE)

VARIABLE i

Has(ev, f) == f \in DOMAIN ev
Flag(ev, f) == Has(ev, f) /\ ev[f]

\* ev: the triple; run: one merge of it (one strategy / role assignment)
Clauses(ev, run) ==
  IF Has(run, "raised") THEN << <<"Completes", FALSE>> >>
  ELSE
  LET D == run.D
      m == run.merged
      b == ev.base
      lo == IF Flag(run, "swapped") THEN ev.remote ELSE ev.local
      re == IF Flag(run, "swapped") THEN ev.local ELSE ev.remote
      conf == HasConflict(D)
  IN <<
    <<"Completes", TRUE>>,
    <<"ValidNb", Has(run, "valid") => run.valid>>,
    <<"UniqueCellIds", Has(run, "uniqueids") => run.uniqueids>>,
    <<"AppliesToMerged", AppliesTo(b, D, m)>>,
    <<"AllLocalIsLocal", Flag(run, "allside") => AllSideIs(b, D, "local", lo)>>,
    <<"AllRemoteIsRemote", Flag(run, "allside") => AllSideIs(b, D, "remote", re)>>,
    <<"OrderedOK", OrderedOK(b, D)>>,
    <<"SamePathContiguous", SamePathContiguous(b, D)>>,
    <<"DecisionSchemaOK", IF Has(ev, "schemaActions")
                          THEN AllDecisionSchemaOKFor(D, {ev.schemaActions[k] : k \in 1..Len(ev.schemaActions)})
                          ELSE AllDecisionSchemaOK(D)>>,
    <<"PublishedSchemaOK", Has(run, "jsvalid") => run.jsvalid>>,
    <<"DecisionPlainJSON", AllDecisionPlainJSON(D)>>,
    <<"EmbeddedWellFormed", AllEmbeddedWF(b, D)>>,
    <<"LawHolds", Has(ev, "law") => (~conf /\ Eq(m, ev.expected))>>,
    <<"Symmetric",
        Has(run, "sw") =>
          \/ SamePositionInsert(ev.ld, ev.rd)
          \/ /\ ~Has(run.sw, "raised")
             /\ conf = HasConflict(run.sw.D)
             /\ (~conf => Eq(m, run.sw.merged))>>,
    <<"DisjointExact", Flag(ev, "disjoint") => (~conf /\ Eq(m, ev.expected))>>,
    <<"LinesSurvive", Flag(run, "lines") => LinesSurvive(b, ev.local, ev.remote, m)>>,
    <<"LinesProvenance", (Flag(run, "lines") \/ Has(run, "side")) => LinesProvenance(b, ev.local, ev.remote, m)>>,
    <<"LinesProvenanceModGlue", (Flag(run, "lines") \/ Has(run, "side")) => LinesProvenanceModGlue(b, ev.local, ev.remote, m)>>,
    <<"SameLineFlagged",
        (Flag(ev, "flag") /\ Flag(run, "lines")) =>
          /\ conf
          /\ \A k \in 1..Len(ev.variants) : StripEnd(ev.variants[k]) \in SourceLines(m)>>,
    <<"UseSideNoConflict", Has(run, "side") => ~conf>>,
    <<"UseSideEquivalence",
        (Has(run, "side") /\ Has(run, "toolkey") /\ Has(ev, run.toolkey)) =>
          LET r == ApplyDecisions(b, ResolveAll(ev[run.toolkey], run.side)) IN r.ok /\ Eq(r.v, m)>>,
    \* mjs: the Python merged document encoded the way JavaScript sees numbers
    <<"TsApplied", Has(run, "tsm") => (Has(run, "mjs") /\ Eq(run.tsm, run.mjs))>>,
    <<"TsAccepts", ~Has(run, "tsraised")>>,
    <<"ArgsUnchanged",
        Has(run, "after") => (Eq(run.after[1], b) /\ Eq(run.after[2], lo) /\ Eq(run.after[3], re))>>
  >>

Report(ev) ==
  \A q \in 1..Len(ev.runs) :
    LET cs == Clauses(ev, ev.runs[q]) IN
    \A k \in 1..Len(cs) :
       IF cs[k][2] THEN TRUE ELSE PrintT(<<"FAIL", ev.tid, ev.runs[q].name, cs[k][1]>>)

Init == i = 1
Next == /\ i <= Len(Trace)
        /\ Report(Trace[i]) = TRUE
        /\ i' = i + 1
Spec == Init /\ [][Next]_i

Accepted == TLCGet("stats").diameter = Len(Trace) + 1
=============================================================================
