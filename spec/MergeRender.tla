----------------------------- MODULE MergeRender -----------------------------
(***************************************************************************)
(* Transcription of nbdime's built-in text-merge renderer                  *)
(*   prettyprint.builtin_merge_render / format_merge_render_lines          *)
(* - what the default (inline) source strategy falls back on when neither  *)
(* git nor diff3 is available, or when the external tool refuses the text  *)
(* (C03, C07).  Texts are sequences of lines; a line is a sequence of code *)
(* points that ends with LF except, possibly, the last line of a text.     *)
(*                                                                         *)
(* One state per (local, remote) pair of a bounded universe of texts; TLC  *)
(* checks at design level                                                  *)
(*   EqualIsClean     local = remote: that text, status 0                  *)
(*   MarkersInOrder   otherwise exactly one <<<<<<< / ======= / >>>>>>>    *)
(*                    line each, in this order, status 1                   *)
(*   Survive          every line of either side is a line of the result    *)
(*   Provenance       every non-blank line of the result is a line of a    *)
(*                    side or a marker line (nothing invented, no marker   *)
(*                    glued to text)                                       *)
(*   LocalFirst       the local variant stands between <<<<<<< and ======= *)
(* and with EMIT prints every case, which the harness compares with what   *)
(* nbdime's renderer returns for the same texts.                           *)
(***************************************************************************)
EXTENDS Naturals, Sequences, FiniteSets, TLC, Json

CONSTANTS MaxLines, EMIT

VARIABLES local, remote, phase
vars == <<local, remote, phase>>

LF == 10
LineBodies == {<<97>>, <<98>>, <<99>>}          \* "a", "b", "c"
Term(b) == b \o <<LF>>
RECURSIVE SeqsUpTo(_, _)
SeqsUpTo(S, n) == IF n = 0 THEN {<<>>}
                  ELSE LET P == SeqsUpTo(S, n - 1)
                       IN P \cup {Append(s, x) : s \in {q \in P : Len(q) = n - 1}, x \in S}
\* texts: all lines terminated, or all but the last
Texts == LET full == SeqsUpTo({Term(b) : b \in LineBodies}, MaxLines)
         IN full \cup {[t EXCEPT ![Len(t)] = SubSeq(@, 1, Len(@) - 1)] : t \in {u \in full : Len(u) > 0}}

EndsLF(ln) == Len(ln) > 0 /\ ln[Len(ln)] = LF
Marker(ch, title) == [k \in 1..7 |-> ch] \o title \o <<LF>>
Sep0 == Marker(60, <<32, 108, 111, 99, 97, 108>>)                \* "<<<<<<< local\n"
Sep2 == Marker(61, <<>>)                                         \* "=======\n"
Sep3 == Marker(62, <<32, 114, 101, 109, 111, 116, 101>>)         \* ">>>>>>> remote\n"

\* format_merge_render_lines (include_base = False)
RenderLines(l0, r0) ==
  LET Bump(t) == IF Len(t) > 0 /\ EndsLF(t[Len(t)]) THEN [t EXCEPT ![Len(t)] = @ \o <<LF>>] ELSE t
      l1 == Bump(l0)
      r1 == Bump(r0)
      n == IF Len(l1) < Len(r1) THEN Len(l1) ELSE Len(r1)
      RECURSIVE Pre(_)
      Pre(i) == IF i < n /\ l1[i + 1] = r1[i + 1] THEN Pre(i + 1) ELSE i
      p == Pre(0)
      pre == SubSeq(l1, 1, p)
      l2 == SubSeq(l1, p + 1, Len(l1))
      r2 == SubSeq(r1, p + 1, Len(r1))
      \* "extract equal lines at end": the loop counts its indices UP, so it runs at most once: the last line, if the
      \* two remainders end alike, is repeated after the closing marker; the remainders themselves stay whole
      post == IF Len(l2) > 0 /\ Len(r2) > 0 /\ l2[Len(l2)] = r2[Len(r2)] THEN <<l2[Len(l2)]>> ELSE <<>>
      raw == pre \o <<Sep0>> \o l2 \o <<Sep2>> \o r2 \o <<Sep3>> \o post
      \* every line gets a line end; the last line loses its line end(s)
      ended == [k \in 1..Len(raw) |-> IF EndsLF(raw[k]) THEN raw[k] ELSE raw[k] \o <<LF>>]
      RECURSIVE Strip(_)
      Strip(ln) == IF Len(ln) > 0 /\ ln[Len(ln)] \in {LF, 13} THEN Strip(SubSeq(ln, 1, Len(ln) - 1)) ELSE ln
  IN [ended EXCEPT ![Len(ended)] = Strip(@)]

RECURSIVE Flat(_)
Flat(ls) == IF Len(ls) = 0 THEN <<>> ELSE ls[1] \o Flat(Tail(ls))

\* builtin_merge_render without a strategy: [text, status]
Render(l, r) == IF l = r THEN [text |-> Flat(l), status |-> 0]
                ELSE [text |-> Flat(RenderLines(l, r)), status |-> 1]

\* the lines of a text as the line clauses of C07 see them: split at LF, line ends removed
RECURSIVE SplitLF(_, _)
SplitLF(t, acc) == IF Len(t) = 0 THEN (IF Len(acc) = 0 THEN <<>> ELSE <<acc>>)
                   ELSE IF t[1] = LF THEN <<acc>> \o SplitLF(Tail(t), <<>>)
                   ELSE SplitLF(Tail(t), Append(acc, t[1]))
LinesOf(t) == LET s == SplitLF(t, <<>>) IN {s[k] : k \in 1..Len(s)}
BodyOf(ln) == IF EndsLF(ln) THEN SubSeq(ln, 1, Len(ln) - 1) ELSE ln
Bodies(ls) == {BodyOf(ls[k]) : k \in 1..Len(ls)}
MarkerBodies == {BodyOf(Sep0), BodyOf(Sep2), BodyOf(Sep3)}

Init == local \in Texts /\ remote = <<>> /\ phase = "first"
PickRemote == phase = "first" /\ remote' \in Texts /\ phase' = "pair" /\ UNCHANGED local
Next == PickRemote
Spec == Init /\ [][Next]_vars
Ready == phase = "pair"

Res == Render(local, remote)
OutLines == SplitLF(Res.text, <<>>)
Count(b) == Cardinality({k \in 1..Len(OutLines) : OutLines[k] = b})
Pos(b) == CHOOSE k \in 1..Len(OutLines) : OutLines[k] = b

EqualIsClean == (Ready /\ local = remote) => (Res.status = 0 /\ Res.text = Flat(local))
MarkersInOrder == (Ready /\ local # remote) =>
  /\ Res.status = 1
  /\ \A m \in MarkerBodies : Count(m) = 1
  /\ Pos(BodyOf(Sep0)) < Pos(BodyOf(Sep2)) /\ Pos(BodyOf(Sep2)) < Pos(BodyOf(Sep3))
Survive == Ready => (Bodies(local) \cup Bodies(remote)) \subseteq LinesOf(Res.text)
Provenance == Ready =>
  \A ln \in LinesOf(Res.text) : ln = <<>> \/ ln \in Bodies(local) \cup Bodies(remote) \/ (local # remote /\ ln \in MarkerBodies)
\* between the opening marker and the separator stands what local has beyond the common leading lines
LocalFirst == (Ready /\ local # remote) =>
  LET a == Pos(BodyOf(Sep0)) b == Pos(BodyOf(Sep2)) IN
  \A k \in (a + 1)..(b - 1) : OutLines[k] = <<>> \/ OutLines[k] \in Bodies(local)

Emit == (EMIT /\ Ready) =>
  PrintT("RENDER " \o ToJson([l |-> Flat(local), r |-> Flat(remote), text |-> Res.text, status |-> Res.status]))
=============================================================================
