"""Drivers that run the real differ/patcher and record one event per call return."""
import copy
import json

from .common import exc_info
from .encode import enc, enc_diff, canon


def diff_event(tid, a, b, differ, patcher, snapshot=True, extra=None):
    """Run differ(a, b) then patcher(a, d); record everything DiffTrace wants."""
    ev = {"tid": tid, "a": enc(a), "b": enc(b)}
    if extra:
        ev.update(extra)
    a0 = canon_or_none(a) if snapshot else None
    b0 = canon_or_none(b) if snapshot else None
    try:
        d = differ(a, b)
    except Exception as e:  # noqa
        t, w = exc_info(e)
        ev["raised"] = {"type": t, "where": w, "msg": str(e)[:200]}
        return ev, None
    ev["d"] = enc_diff(d)
    if snapshot:
        ev["aAfter"] = enc(a)
        ev["bAfter"] = enc(b)
    try:
        p = patcher(a, d)
        ev["p"] = enc(to_plain(p))
    except Exception as e:  # noqa
        t, w = exc_info(e)
        ev["praised"] = {"type": t, "where": w, "msg": str(e)[:200]}
    if snapshot and (canon_or_none(a) != a0 or canon_or_none(b) != b0):
        ev["mutated_after_patch"] = True
    if "p" in ev:
        # d is the value diff(a, b) returned: patch(a, d) must give b whenever it is evaluated, and d stays what it was
        try:
            ev["dAfter"] = enc_diff(d)
            ev["p2"] = enc(to_plain(patcher(a, d)))
        except Exception as e:  # noqa
            t, w = exc_info(e)
            ev["p2raised"] = {"type": t, "where": w, "msg": str(e)[:200]}
    return ev, d


def to_plain(x):
    """NotebookNode etc. -> plain dict/list (keeps tuples & odd types visible)."""
    if isinstance(x, dict):
        return {k: to_plain(v) for k, v in x.items()}
    if isinstance(x, list):
        return [to_plain(v) for v in x]
    return x


def canon_or_none(x):
    try:
        return canon(x)
    except Exception:
        return None
