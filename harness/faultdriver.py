"""Runs `nbmerge` / `git-nbmergedriver` in THIS process with one fault injected at a step boundary.

usage: python -m harness.faultdriver '<json spec>'
  spec = {"repo": path, "entry": "nbmerge" | "driver", "argv": [...],
          "out": path of the designated output file or null,
          "fault": null | {"step": ..., "kind": "IOError"|"MemoryError"|"Interrupt"|"Kill", "k": n}}
The steps are the actions of spec/MergeCmd.tla; the injection points are the module-level names
main_merge itself uses.  Prints "FAULT-FIRED" on stderr right before the fault strikes."""
import errno
import io
import json
import os
import signal
import sys


def main():
    spec = json.loads(sys.argv[1])
    sys.path.insert(0, spec["repo"])
    os.environ.pop("NBDIME_VERIF", None)
    fault = spec.get("fault")
    out_path = os.path.abspath(spec["out"]) if spec.get("out") else None

    import nbformat
    import nbdime.nbmergeapp as app
    import nbdime.merging.notebooks as mnb
    import nbdime.log
    import logging
    nbdime.log.logger.setLevel(logging.CRITICAL)

    def strike():
        sys.stderr.write("FAULT-FIRED\n")
        sys.stderr.flush()
        kind = fault["kind"]
        if kind == "Kill":
            os.kill(os.getpid(), signal.SIGKILL)
        if kind == "IOError":
            raise OSError(errno.EIO, "injected I/O error")
        if kind == "MemoryError":
            raise MemoryError("injected")
        if kind == "Interrupt":
            raise KeyboardInterrupt()
        raise RuntimeError("unknown fault kind")

    def at(step, index=None):
        return fault is not None and fault["step"] == step and (index is None or fault.get("k", 0) == index)

    def counted(fn, steps):
        """wrap fn: the i-th call is step steps[i]"""
        state = {"n": 0}

        def wrapper(*a, **kw):
            i = state["n"]
            state["n"] += 1
            if i < len(steps) and at(steps[i]):
                strike()
            return fn(*a, **kw)
        return wrapper

    both_null = spec.get("both_null", False)
    app.read_notebook = counted(app.read_notebook, ["ReadBaseDel"] if both_null else ["ReadBase", "ReadLocal", "ReadRemote"])
    mnb.diff_notebooks = counted(mnb.diff_notebooks, ["DiffLocal", "DiffRemote"])
    mnb.decide_merge_with_diff = counted(mnb.decide_merge_with_diff, ["Decide"])
    mnb.apply_decisions = counted(mnb.apply_decisions, ["Apply"])
    nbformat.writes = counted(nbformat.writes, ["Serialize"])

    real_remove = os.remove

    def remove(path, *a, **kw):
        if out_path and os.path.abspath(path) == out_path and at("RemoveOut"):
            strike()
        return real_remove(path, *a, **kw)
    os.remove = remove

    class FaultyFile(object):
        def __init__(self, f):
            self._f = f
            self._n = 0

        def write(self, s):
            if at("Write", self._n):
                strike()
            self._n += 1
            return self._f.write(s)

        def close(self):
            if at("Close"):
                strike()
            return self._f.close()

        def __enter__(self):
            return self

        def __exit__(self, *a):
            self.close()
            return False

        def __getattr__(self, name):
            return getattr(self._f, name)

    real_open = io.open

    def faulty_open(file, mode="r", *a, **kw):
        try:
            is_out = out_path is not None and os.path.abspath(os.fspath(file)) == out_path and "w" in mode
        except TypeError:
            is_out = False
        if is_out:
            if at("OpenOut"):
                strike()
            if fault is not None and fault.get("os"):
                return real_open(file, mode, *a, **kw)
            return FaultyFile(real_open(file, mode, *a, **kw))
        return real_open(file, mode, *a, **kw)
    io.open = faulty_open
    import builtins
    builtins.open = faulty_open

    if fault is not None and fault["step"] == "WriteStdout":
        real_setup = app.setup_std_streams

        class FaultyStdout(object):
            def __init__(self, f):
                self._f = f

            def write(self, s):
                strike()

            def __getattr__(self, name):
                return getattr(self._f, name)

        def setup():
            real_setup()
            sys.stdout = FaultyStdout(sys.stdout)
        app.setup_std_streams = setup
        if spec["entry"] == "driver":
            sys.stdout = FaultyStdout(sys.stdout)

    if fault is not None and fault.get("os"):
        # a REAL fault of the operating system instead of a raised exception: once the result is serialised (the
        # merge itself writes temporary files for git merge-file) no file may grow beyond a few bytes (the disk is
        # full / a quota is reached); the kernel writes what still fits and reports a short count or EFBIG -
        # whichever way the program writes its result (standard output is a pipe, not affected)
        serialise = nbformat.writes

        def writes_then_limit(*a, **kw):
            res = serialise(*a, **kw)
            import resource
            signal.signal(signal.SIGXFSZ, signal.SIG_IGN)
            resource.setrlimit(resource.RLIMIT_FSIZE, (40, 40))
            sys.stderr.write("FAULT-FIRED\n")
            sys.stderr.flush()
            return res
        nbformat.writes = writes_then_limit
    if spec["entry"] == "nbmerge":
        rc = app.main(spec["argv"])
    else:
        import nbdime.vcs.git.mergedriver as drv
        rc = drv.main(spec["argv"])
    sys.stdout.flush()
    sys.exit(rc)


if __name__ == "__main__":
    main()
