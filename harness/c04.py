"""C04 - a merged notebook always validates against its declared notebook format.

spec : MergeTrace.tla clause ValidNb on every merge event (the verdict logged is that of the JSON
       schema of the minor version the merged notebook declares, without nbformat's repairing
       normalisation); the same triples / strategies / helpers as C03.
c->s : additionally a subset goes through `nbmerge --out` and the written file is validated.
"""
import io
import json
import os
import contextlib

from . import common, mergefam, tlc
from .common import Check
from .c03 import build
from .c09 import classify
from .concretize import schema_errors
from .diffdrv import to_plain
from .encode import enc


def file_runs(chk, triples, n):
    """nbmerge --out on n triples: the file on disk must be schema-valid JSON."""
    from nbdime import nbmergeapp
    from .c01 import isolate_config
    from . import mergedrv
    mergedrv.quiet_logging()
    work = tlc.subdir("c04")
    isolate_config(work)
    bad = 0
    for k, (name, b, l, r, info) in enumerate(triples[:n]):
        paths = {}
        for tag, nb in (("b", b), ("l", l), ("r", r)):
            paths[tag] = os.path.join(work, "%s%d.ipynb" % (tag, k))
            with io.open(paths[tag], "w", encoding="utf8") as f:
                json.dump(nb, f)
        out = os.path.join(work, "m%d.ipynb" % k)
        strat = ["inline", "use-local", "use-remote", "use-base"][k % 4]
        try:
            with contextlib.redirect_stdout(io.StringIO()), contextlib.redirect_stderr(io.StringIO()):
                nbmergeapp.main(["--merge-strategy", strat, "--out", out, paths["b"], paths["l"], paths["r"]])
            with io.open(out, encoding="utf8") as f:
                written = json.load(f)
            errs = schema_errors(written)
        except Exception as e:  # noqa
            t, w = common.exc_info(e)
            errs = None
            # a crash is C03's business; only record it here
            chk.notes.setdefault("file_runs_raised", []).append("%s:%s" % (t, w))
        chk.count(("file", info.get("abstract"), strat), nontrivial=True)
        if errs:
            bad += 1
            def types(nb):
                return {c.get("id"): c.get("cell_type") for c in nb.get("cells", []) if c.get("id") is not None}
            bt = types(b)
            changed = any(k in bt and bt[k] != v for side in (l, r) for k, v in types(side).items())
            def tagset(nb):
                return {t for c in nb.get("cells", []) for t in (c.get("metadata", {}).get("tags") or []) if isinstance(t, str)}
            sig = ("merged-invalid:required-property:celltype-changed-on-both-sides-differently"
                   if "is a required property" in errs[0] and _celltype_changed_differently(b, l, r)
                   else "merged-invalid:additional-properties:celltype-changed-on-one-side"
                   if errs[0].startswith("Additional properties are not allowed") and changed
                   else "merged-invalid:duplicate-tag:same-tag-added-on-both-sides"
                   if "has non-unique elements" in errs[0] and (tagset(l) & tagset(r)) - tagset(b)
                   else "nbmerge-file-invalid:%s" % _msg_class(errs[0]))
            chk.violation(sig,
                          "file written by nbmerge --out fails the schema of its declared minor: %s" % errs[0],
                          {"triple": name, "strategy": strat, "base": to_plain(b), "local": to_plain(l),
                           "remote": to_plain(r), "errors": errs})
        for p in list(paths.values()) + [out]:
            try:
                os.unlink(p)
            except OSError:
                pass
    chk.notes["nbmerge_files_validated"] = min(n, len(triples))


def _msg_class(msg):
    import re
    msg = re.sub(r"\d+", "N", msg)
    return msg[:80]


def _era(ev):
    """do the three inputs straddle the 4.5 boundary (cell ids required from 4.5 on)?"""
    minors = []
    for k in ("base", "local", "remote"):
        try:
            minors.append(int(ev[k]["m"]["nbformat_minor"]["v"]))
        except Exception:
            minors.append(-1)
    if any(m >= 5 for m in minors) and any(m < 5 for m in minors):
        return "inputs-straddle-4.5"
    return "inputs-same-era"


def _celltype_changed(ev):
    """does one side change the cell_type of a cell that keeps its id (convert code <-> markdown)?"""
    from .c02 import safe_dec

    def types(nb):
        try:
            return {c.get("id"): c.get("cell_type") for c in safe_dec(nb)["cells"] if c.get("id") is not None}
        except Exception:
            return {}
    b = types(ev["base"])
    for side in ("local", "remote"):
        t = types(ev[side])
        if any(k in b and b[k] != v for k, v in t.items()):
            return True
    return False


def _celltype_changed_differently(b, l, r):
    """do the two sides convert one base cell (same id) to two different cell types?"""
    def types(nb):
        return {c.get("id"): c.get("cell_type") for c in nb.get("cells", []) if c.get("id") is not None}
    bt, lt, rt = types(b), types(l), types(r)
    return any(k in lt and k in rt and len({v, lt[k], rt[k]}) == 3 for k, v in bt.items())


def _tag_added_on_both_sides(ev):
    """is there a cell tag absent from the base notebook that local and remote both introduce?"""
    from .c02 import safe_dec

    def tags(nb):
        out = set()
        try:
            for c in safe_dec(nb)["cells"]:
                t = c.get("metadata", {}).get("tags", [])
                out |= {x for x in t if isinstance(x, str)} if isinstance(t, list) else set()
        except Exception:
            pass
        return out
    return bool((tags(ev["local"]) & tags(ev["remote"])) - tags(ev["base"]))


def classify_valid(chk, ev, run_, clauses, info):
    if "UniqueCellIds" in clauses:
        strat = run_["name"].split("|")[1]
        for cls in run_.get("dup_classes", ["?"]):       # one report per class of duplicated id
            chk.violation("merged-invalid:duplicate-cell-id:%s" % cls,
                          "merged notebook declares 4.5 but has cells sharing one id (strategy %s)" % strat,
                          mergefam.replay_obj(ev, run_, clauses, info))
    if "ValidNb" not in clauses:
        return
    rep = mergefam.replay_obj(ev, run_, clauses, info)
    strat = run_["name"].split("|")[1]
    msg = run_.get("invalid_msg", "?")
    if msg.startswith("Additional properties are not allowed") and _celltype_changed(ev):
        chk.violation("merged-invalid:additional-properties:celltype-changed-on-one-side",
                      "merged cell mixes keys of two cell types (strategy %s): %s" % (strat, msg), rep)
        return
    from .c02 import safe_dec
    try:
        plain = [safe_dec(ev[k]) for k in ("base", "local", "remote")]
    except Exception:
        plain = None
    if plain and "is a required property" in msg and _celltype_changed_differently(*plain):
        chk.violation("merged-invalid:required-property:celltype-changed-on-both-sides-differently",
                      "merged cell lacks the fields its (base) cell type requires (strategy %s): %s" % (strat, msg), rep)
        return
    if "has non-unique elements" in msg and _tag_added_on_both_sides(ev):
        chk.violation("merged-invalid:duplicate-tag:same-tag-added-on-both-sides",
                      "merged cell lists a tag twice (strategy %s): %s" % (strat, msg), rep)
        return
    chk.violation("merged-invalid:%s:%s" % (_msg_class(msg), _era(ev)),
                  "merged notebook fails the schema of its declared minor (strategy %s): %s"
                  % (strat, run_.get("invalid_msg")), rep)


def run():
    chk = Check("C04")
    triples, tasks = build(chk, "c04", screen="invalid")
    events = mergefam.generate(tasks)
    info = {t[0]: t[4] for t in triples}
    for tid, names in events.meta:
        chk.count((info[tid].get("abstract"),), nontrivial=True, n=len(names))
    v = mergefam.validate(chk, events, "MergeTrace on %d triples" % len(events))
    idx = mergefam.index_runs(events)
    for key, cl in v.fails.items():
        ev, run_ = idx[key]
        classify_valid(chk, ev, run_, cl, info[ev["tid"]].get("script"))
    file_runs(chk, triples, 40 if chk.quick else 600)
    for name, b, l, rr, inf in triples[:2]:
        chk.sample({"triple": name, "edit_script": inf.get("script"), "abstract": inf.get("abstract")})
    chk.cov["rule"] = ("same triples/strategies/helpers as C03 (bases of minors 0, 2, 4, 5; conflicts of every kind the edit "
                       "actions of spec/NotebookEdits.tla produce); evaluations = merges + nbmerge --out files")
    chk.assumptions += ["validity = JSON schema of the declared minor (nbformat's schema files) applied WITHOUT nbformat's "
                        "normalisation, which silently adds missing ids and renames duplicate ones"]
    return chk.finish()


if __name__ == "__main__":
    common.main(run)
