"""C10 - use-base / use-local / use-remote equal resolving every open conflict to that side.

spec : MergeFormat.tla ResolveAll + ApplyDecisions; MergeTrace.tla clauses UseSideNoConflict,
       UseSideEquivalence (merged = ApplyDecisions(base, ResolveAll(D_mergetool, side))), LinesProvenance.
c->s : each triple is merged with conflicts left open (mergetool) and with use-<side> given as
       --merge-strategy, or as input+output strategy (only decided where all open conflicts lie in
       sources / outputs / attachments), transients ignored or not.
"""
from . import common, mergefam
from .common import Check
from .corpus import Corpus
from .mergefam import plan_item
from .c09 import classify

CLAUSES = ("Completes", "UseSideNoConflict", "UseSideEquivalence", "LinesProvenance")
SIDES = ("base", "local", "remote")


def make_plan(full):
    plan = [plan_item("tool", ("mergetool", None, None, True))]
    if full:
        plan.append(plan_item("tool", ("mergetool", None, None, False)))
    for side in SIDES:
        s = "use-" + side
        plan.append(plan_item("side", (s, None, None, True), extra={"side": side, "toolkey": "toolD"}))
        plan.append(plan_item("side_io", ("inline", s, s, True), extra={"side": side, "toolkey": "toolD"}))
        if full:
            plan.append(plan_item("side", (s, None, None, False), extra={"side": side, "toolkey": "toolDnoT"}))
            plan.append(plan_item("side", (s, s, s, True), extra={"side": side, "toolkey": "toolD"}))
    return plan


def run():
    chk = Check("C10")
    corp = Corpus(chk)
    if chk.quick:
        triples = corp.triples(n_enum=600, n_random=140, salt="c10") + mergefam.sweep(chk, "useside", 100)
    else:
        triples = corp.triples(n_enum=9000, n_random=4000, random_maxedits=5, salt="c10") + mergefam.sweep(chk, "useside", 1000, positions=("same", "adjacent", "apart"))
    tasks = [(name, b, l, rr, make_plan(k % 3 == 0 or not chk.quick), {}) for k, (name, b, l, rr, info) in enumerate(triples)]
    info = {t[0]: t[4] for t in triples}
    events = mergefam.generate(tasks)
    for tid, names in events.meta:
        chk.count((info[tid].get("abstract"),), nontrivial=True, n=len(names))
    v = mergefam.validate(chk, events, "MergeTrace on %d triples" % len(events))
    idx = mergefam.index_runs(events)
    for key, cl in v.fails.items():
        ev, run_ = idx[key]
        if run_["name"].startswith("tool|"):
            continue            # the open-conflict run itself is C03/C09's business
        classify(chk, ev, run_, cl, CLAUSES, info[ev["tid"]].get("script"))
    chk.sample({"triple": triples[0][0], "edit_script": triples[0][4].get("script"),
                "runs": [n for n in events.meta[0][1]]})
    chk.cov["rule"] = ("C03 triples; per triple one open-conflict run (mergetool) and use-base/local/remote as --merge-strategy "
                       "(transients on; off for a third of the triples in quick, all in thorough), as input+output strategy and as "
                       "all three options; distinct by abstract triple")
    chk.assumptions += ["'resolving every conflicted decision to that side' = ResolveAll: action := side, conflict := false, on the "
                        "decisions of the mergetool run with the same transient setting; applied with the specification's applier"]
    return chk.finish()


if __name__ == "__main__":
    common.main(run)
