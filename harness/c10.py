"""C10 - use-base / use-local / use-remote equal resolving every open conflict to that side.

spec : MergeFormat.tla ResolveAll + ApplyDecisions; MergeTrace.tla clauses UseSideNoConflict,
       UseSideEquivalence (merged = ApplyDecisions(base, ResolveAll(D_mergetool, side))), LinesProvenance.
c->s : each triple is merged with conflicts left open (mergetool) and with use-<side> given as
       --merge-strategy, or as input+output strategy (only decided where all open conflicts lie in
       sources / outputs / attachments), transients ignored or not.
"""
from . import common, mergefam
from .common import Check
from .corpus import Corpus
from .mergefam import plan_item
from .c09 import classify

CLAUSES = ("Completes", "UseSideNoConflict", "UseSideEquivalence", "LinesProvenance")
SIDES = ("base", "local", "remote")


def make_plan(full):
    plan = [plan_item("tool", ("mergetool", None, None, True))]
    if full:
        plan.append(plan_item("tool", ("mergetool", None, None, False)))
    for side in SIDES:
        s = "use-" + side
        plan.append(plan_item("side", (s, None, None, True), extra={"side": side, "toolkey": "toolD"}))
        plan.append(plan_item("side_io", ("inline", s, s, True), extra={"side": side, "toolkey": "toolD"}))
        if full:
            plan.append(plan_item("side", (s, None, None, False), extra={"side": side, "toolkey": "toolDnoT"}))
            plan.append(plan_item("side", (s, s, s, True), extra={"side": side, "toolkey": "toolD"}))
    return plan


def design_level(chk):
    """MergeAlgo.tla with strategies: TLC checks UseSideResolved / UseSideEquiv (and the other invariants) on the
    transcription for every triple x strategy configuration; the emitted cases are compared with nbdime (drift) and
    returned for the validation of the real generic merger under the same Strategies."""
    from .c05 import merge_algo
    cases = []
    if chk.quick:
        runs = [("lists", 2, True, 2, "all", "few"), ("strings", 1, True, 2, "all", "all"), ("objects", 1, True, 2, "all", "few")]
    else:
        runs = [("lists", 2, True, 2, "all", "all"), ("lists", 3, False, 2, "all", "few"), ("strings", 1, True, 3, "all", "all"),
                ("strings", 2, False, 2, "all", "all"), ("objects", 1, True, 2, "all", "all"),
                ("nested", 1, True, 2, "all", "few"), ("nested", 1, False, 3, "all", "all")]
    for kind, maxlen, emit, nins, npatch, strat in runs:
        for c in merge_algo(chk, maxlen, emit, kind=kind, nins=nins, npatch=npatch, strat=strat):
            cases.append((kind,) + c)
    return cases


def generic_tasks(cases, r, cap):
    """One event per (base, local, remote, item/key strategies, transients) of the model's cases in which a use-*
    strategy sits on the document: the open merge (that strategy left out) and the three use-<side> merges."""
    import json
    groups = {}
    for kind, b, l, rr, st, sd, tr in cases:
        if st["l"] not in ("use-base", "use-local", "use-remote") or st["i"].startswith("use-"):
            continue
        rest = {k: v for k, v in sd.items() if k != "/"}
        key = json.dumps([kind, b, l, rr, rest, tr], sort_keys=True)
        groups.setdefault(key, (kind, b, l, rr, rest, tr))
    keys = sorted(groups)
    r.shuffle(keys)
    tasks = []
    for n, key in enumerate(keys[:cap]):
        kind, b, l, rr, rest, tr = groups[key]
        plan = [plan_item("tool", gstrat=rest, gtrans=tr)]
        for side in SIDES:
            gs = dict(rest)
            gs["/"] = "use-" + side
            plan.append(plan_item("json", gstrat=gs, gtrans=tr, extra={"side": side, "toolkey": "toolD"}))
        tasks.append(("algo-%s-%d" % (kind, n), b, l, rr, plan, {"generic": True}))
    return tasks


def run():
    chk = Check("C10")
    cases = design_level(chk)
    gtasks = generic_tasks(cases, common.rng("c10g"), 1200 if chk.quick else 12000)
    corp = Corpus(chk)
    if chk.quick:
        triples = corp.triples(n_enum=600, n_random=140, salt="c10") + mergefam.sweep(chk, "useside", 100)
    else:
        triples = corp.triples(n_enum=9000, n_random=4000, random_maxedits=5, salt="c10") + mergefam.sweep(chk, "useside", 1000, positions=("same", "adjacent", "apart"))
    tasks = [(name, b, l, rr, make_plan(k % 3 == 0 or not chk.quick), {}) for k, (name, b, l, rr, info) in enumerate(triples)]
    info = {t[0]: t[4] for t in triples}
    events = mergefam.generate(tasks + gtasks)
    for t in gtasks:
        info[t[0]] = {"abstract": t[0], "script": {"generic": True}}
    for tid, names in events.meta:
        chk.count((info[tid].get("abstract"),), nontrivial=True, n=len(names))
    chk.notes["generic_strategy_events"] = len(gtasks)
    v = mergefam.validate(chk, events, "MergeTrace on %d notebook triples + %d generic triples of MergeAlgo's strategy cases"
                          % (len(tasks), len(gtasks)))
    idx = mergefam.index_runs(events)
    for key, cl in v.fails.items():
        ev, run_ = idx[key]
        if run_["name"].startswith("tool|"):
            continue            # the open-conflict run itself is C03/C09's business
        classify(chk, ev, run_, cl, CLAUSES, info[ev["tid"]].get("script"))
    chk.sample({"triple": triples[0][0], "edit_script": triples[0][4].get("script"),
                "runs": [n for n in events.meta[0][1]]})
    chk.cov["rule"] = ("C03 triples; per triple one open-conflict run (mergetool) and use-base/local/remote as --merge-strategy "
                       "(transients on; off for a third of the triples in quick, all in thorough), as input+output strategy and as "
                       "all three options; distinct by abstract triple")
    chk.assumptions += ["'resolving every conflicted decision to that side' = ResolveAll: action := side, conflict := false, on the "
                        "decisions of the mergetool run with the same transient setting; applied with the specification's applier"]
    return chk.finish()


if __name__ == "__main__":
    common.main(run)
