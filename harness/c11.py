"""C11 - every produced diff is well-formed for its base document and the diff schema.

spec : DiffFormat.tla WellFormed / SchemaOK / DiffPlainJSON (DiffModel.tla checks that these are
       consistent with Patch on the bounded universe); DiffTrace.tla clauses on every diff the generic and
       the notebook differ return; MergeTrace.tla clause EmbeddedWellFormed on every local/remote/custom
       diff embedded in merge decisions, relative to the sub-document its decision's path addresses.
"""
import itertools

from . import mergedrv
from . import common, tlc, genjson, mergefam
from .common import Check
from .corpus import Corpus
from .diffdrv import diff_event
from .c02 import run_models, classify as classify_diff
from .c09 import classify as classify_merge
from .c01 import isolate_config
from .mergefam import plan_item

DIFF_CLAUSES = ("SchemaOK", "PlainJSON", "WellFormed")
MERGE_CLAUSES = ("EmbeddedWellFormed", "DecisionPlainJSON")


def run():
    from nbdime import diff_notebooks, patch_notebook
    from nbdime.diffing.generic import diff
    from nbdime.patching import patch
    chk = Check("C11")
    work = tlc.subdir("c11")
    isolate_config(work)
    corp = Corpus(chk)
    r = common.rng("c11")
    # ---- generic diffs --------------------------------------------------------------------
    models = run_models("quick" if chk.quick else "thorough", chk,
                        universes=[("lists", 2), ("nested", 1), ("objects", 2), ("strings", 1)] if chk.quick else None)
    events = []
    k = 0
    for u, (docs, cases) in models.items():
        for a, b in itertools.product(docs, docs):
            ev, d = diff_event("u-%s-%d" % (u, k), a, b, diff, patch, snapshot=False)
            k += 1
            events.append(ev)
            chk.count(("g", a, b), nontrivial=(a != b))
    for j in range(1200 if chk.quick else 30000):
        a, b = genjson.rand_pair(r, depth=3 if j % 3 else 4)
        ev, d = diff_event("r-%d" % j, a, b, diff, patch, snapshot=False)
        events.append(ev)
        chk.count(("g", a, b), nontrivial=(a != b))
    ngen = len(events)
    # ---- notebook diffs -------------------------------------------------------------------
    pairs = corp.pairs(n_enum=600 if chk.quick else None, n_random=200 if chk.quick else 5000,
                       n_unrelated=50 if chk.quick else 1200, salt="c11")
    for name, a, b, info in pairs:
        ev, d = diff_event("nb-" + name, a, b, diff_notebooks, patch_notebook, snapshot=False)
        events.append(ev)
        chk.count(("nb", info.get("abstract")), nontrivial=(a != b))
    byid = {ev["tid"]: ev for ev in events}
    v = common.validate("DiffTrace", common.diff_trace_cfg(), events, batch=200, name="c11")
    chk.add_validation(v, "DiffTrace on %d generic + %d notebook diffs" % (ngen, len(events) - ngen))
    for tid, clauses in v.fails.items():
        classify_diff(chk, "C11", byid[tid], clauses, DIFF_CLAUSES)
    # ---- diffs embedded in merge decisions ------------------------------------------------------
    triples = corp.triples(n_enum=360 if chk.quick else 7000, n_random=100 if chk.quick else 3000, salt="c11t")
    triples += mergefam.sweep(chk, "embedded", 60 if chk.quick else 600)
    cli = mergefam.cli_strategy_tuples()
    tasks = []
    for name, b, l, rr, info in triples:
        plan = [plan_item("tool", ("mergetool", None, None, True)), plan_item("cli", ("inline", None, None, True))]
        plan += [plan_item("cli", s) for s in r.sample(cli, 2)]
        if info.get("source") in ("output-edits", "output-scenario"):
            # conflicts inside the outputs of one cell: every output strategy builds its own decisions (custom diffs,
            # collected local / remote diffs re-wrapped at the level of the outputs list)
            plan += [plan_item("cli", ("inline", None, o, True)) for o in mergedrv.OUTPUT if o not in (None, "inline")]
        tasks.append((name, b, l, rr, plan, {}))
    mev = mergefam.generate(tasks)
    info = {t[0]: t[4] for t in triples}
    for tid, names in mev.meta:
        chk.count(("m", info[tid].get("abstract")), nontrivial=True, n=len(names))
    mv = mergefam.validate(chk, mev, "MergeTrace (embedded diffs) on %d triples" % len(mev))
    idx = mergefam.index_runs(mev)
    for key, cl in mv.fails.items():
        ev, run_ = idx[key]
        classify_merge(chk, ev, run_, cl, MERGE_CLAUSES, info[ev["tid"]].get("script"))
    chk.sample({"diff_event": events[-1]["tid"], "a_cells": len(pairs[-1][1].cells), "script": pairs[-1][3].get("script")})
    chk.sample({"merge_triple": triples[0][0], "script": triples[0][4].get("script")})
    chk.cov["rule"] = ("all diffs returned by diff() on the TLC-enumerated generic universe cross product + random documents, by "
                       "diff_notebooks() on enumerated/random/unrelated notebook pairs, and all local/remote/custom diffs of the "
                       "decisions of mergetool/default/sampled-strategy merges; non-trivial = inputs differ")
    chk.assumptions += ["only the rules the property states are violations (ordering by position, no overlap, bounds, keys targeted once, "
                        "add on absent / remove-replace-patch on present keys, patches non-empty and into containers, schema, plain JSON)"]
    return chk.finish()


if __name__ == "__main__":
    common.main(run)
