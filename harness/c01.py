"""C01 - notebook diff followed by patch reproduces the target notebook exactly
(library and nbdiff --out / nbpatch -o file interface).

spec : NotebookEdits.tla (TLC enumerates the edit scripts relating the pairs),
       DiffContract/DiffFormat (independent Patch), DiffTrace (clauses per event)
c->s : diff_notebooks / patch_notebook on every pair; a rotating subset also through the
       real nbdiff/nbpatch entry points and the files they write.
"""
import io
import json
import os
import sys
import contextlib

from . import common, tlc
from .common import Check
from .corpus import Corpus
from .diffdrv import diff_event, to_plain
from .encode import enc, enc_diff
from .c02 import classify

C01_CLAUSES = ("Completes", "RoundTrip", "PyPatch", "RepeatPatch", "DiffUnchangedByPatch", "EmptyOnlyIfSame", "SameOnlyIfEmpty",
               "FilePatch", "FileDiffSame")


def isolate_config(work):
    """No user/system jupyter or nbdime config may influence the entry points."""
    cfgdir = os.path.join(work, "jupyter-config")
    os.makedirs(cfgdir, exist_ok=True)
    os.environ["JUPYTER_CONFIG_DIR"] = cfgdir
    os.environ["JUPYTER_CONFIG_PATH"] = cfgdir
    os.environ["JUPYTER_NO_CONFIG"] = "1"
    os.environ["HOME"] = work


def file_roundtrip(work, k, a, b):
    """nbdiff --out d.json a.ipynb b.ipynb ; nbpatch -o p.ipynb a.ipynb d.json"""
    import nbformat
    from nbdime import nbdiffapp, nbpatchapp
    fa, fb = os.path.join(work, "a%d.ipynb" % k), os.path.join(work, "b%d.ipynb" % k)
    fd, fp = os.path.join(work, "d%d.json" % k), os.path.join(work, "p%d.ipynb" % k)
    with io.open(fa, "w", encoding="utf8") as f:
        json.dump(a, f)
    with io.open(fb, "w", encoding="utf8") as f:
        json.dump(b, f)
    res = {}
    sink = io.StringIO()
    try:
        with contextlib.redirect_stdout(sink):
            rc1 = nbdiffapp.main(["--out", fd, fa, fb])
            rc2 = nbpatchapp.main(["-o", fp, fa, fd]) if rc1 == 0 else None
        res["rc"] = [rc1, rc2]
        afile = nbformat.read(fa, as_version=4)
        bfile = nbformat.read(fb, as_version=4)
        res["a"] = afile
        res["b"] = bfile
        if rc1 == 0:
            with io.open(fd, encoding="utf8") as f:
                res["dfile"] = json.load(f)
        if rc2 == 0:
            res["pfile"] = nbformat.read(fp, as_version=4)
    except Exception as e:  # noqa
        res["raised"] = common.exc_info(e) + (str(e)[:200],)
    finally:
        for p in (fa, fb, fd, fp):
            try:
                os.unlink(p)
            except OSError:
                pass
    return res


def make_events(chk, pairs, work, file_every):
    from nbdime import diff_notebooks, patch_notebook
    events = []
    for k, (name, a, b, info) in enumerate(pairs):
        chk.count((info.get("abstract"),), nontrivial=(a != b))
        if file_every and k % file_every == 0:
            fr = file_roundtrip(work, k, a, b)
            if "raised" in fr:
                ev = {"tid": name + "-file", "a": enc(to_plain(a)), "b": enc(to_plain(b)),
                      "raised": {"type": fr["raised"][0], "where": fr["raised"][1], "msg": fr["raised"][2]}}
                events.append(ev)
                continue
            af, bf = fr["a"], fr["b"]
            extra = {}
            if "dfile" in fr:
                extra["dfile"] = enc_diff(fr["dfile"])
            if "pfile" in fr:
                extra["pfile"] = enc(to_plain(fr["pfile"]))
            ev, d = diff_event(name + "-file", af, bf, diff_notebooks, patch_notebook, extra=extra)
            if fr["rc"] != [0, 0]:
                ev["raised"] = {"type": "ExitStatus", "where": "nbdiff/nbpatch", "msg": str(fr["rc"])}
            events.append(ev)
        else:
            ev, d = diff_event(name, a, b, diff_notebooks, patch_notebook)
            events.append(ev)
    return events


def _pair_screen(t):
    """diff + patch of one enumerated pair with the real code: anything other than an exact round trip marks it"""
    from nbdime import diff_notebooks, patch_notebook
    from . import concretize
    try:
        a, b = concretize.concrete(t["base"]), concretize.concrete(t["local"])
    except Exception:
        return None
    try:
        d = diff_notebooks(a, b)
        if (a != b) != bool(d):
            return "empty-iff-same"
        snap = json.dumps(d, sort_keys=True, default=str)
        if patch_notebook(a, d) != b:
            return "roundtrip"
        if json.dumps(d, sort_keys=True, default=str) != snap or patch_notebook(a, d) != b:
            return "repeat"
    except Exception as e:  # noqa
        return "raised:%s" % type(e).__name__
    return None


def pair_sweep(chk, cap):
    """EVERY TLC-enumerated pair (<= 2 edits) goes through the real differ and patcher; the pairs a cheap screen marks
    are forwarded to the validation (the screen selects, TLC decides)."""
    import multiprocessing
    from . import concretize
    from .corpus import enumerate_edits
    tr = enumerate_edits(2, 0)
    with multiprocessing.get_context("fork").Pool(common.NCPU) as pool:
        why = pool.map(_pair_screen, tr, chunksize=128)
    groups = {}
    for t, w in zip(tr, why):
        if w:
            groups.setdefault(w, []).append(t)
    picked, keys = [], sorted(groups)
    while len(picked) < cap and keys:
        for k in list(keys):
            if groups[k]:
                picked.append(groups[k].pop())
                if len(picked) >= cap:
                    break
            else:
                keys.remove(k)
    chk.notes["pair_sweep"] = {"pairs_diffed_and_patched": len(tr), "marked": sum(1 for w in why if w), "forwarded": len(picked)}
    out = []
    for k, t in enumerate(picked):
        a, b = concretize.concrete(t["base"]), concretize.concrete(t["local"])
        if concretize.is_valid(a) and concretize.is_valid(b):
            out.append(("sweep%d" % k, a, b, {"source": "sweep", "script": t["hist"], "abstract": {"a": t["base"], "b": t["local"]}}))
    return out


def run():
    chk = Check("C01")
    work = tlc.subdir("c01")
    isolate_config(work)
    corp = Corpus(chk)
    # design level: the multilevel cell alignment (CellAlign.tla), checked on every pair of abstract cell lists and
    # compared with nbdime's algorithm and its real cell predicates
    from . import align
    align.cell_align(chk, 2, 1 if chk.quick else 2, False)
    align.cell_align(chk, 2 if chk.quick else 3, 0, False, kind="outputs")
    if chk.quick:
        pairs = corp.pairs(n_enum=1500, n_random=400, n_unrelated=80) + pair_sweep(chk, 150)
        file_every = 8
    else:
        pairs = corp.pairs(n_enum=None, n_random=6000, n_unrelated=1500) + pair_sweep(chk, 1500)
        file_every = 10
    events = make_events(chk, pairs, work, file_every)
    byid = {ev["tid"]: ev for ev in events}
    v = common.validate("DiffTrace", common.diff_trace_cfg(), events, batch=120, name="c01")
    chk.add_validation(v, "DiffTrace on %d notebook pairs (%d through nbdiff/nbpatch files)"
                       % (len(events), sum(1 for e in events if e["tid"].endswith("-file"))))
    for tid, clauses in v.fails.items():
        classify(chk, "C01", byid[tid], clauses, C01_CLAUSES)
    for name, a, b, info in pairs[:2]:
        chk.sample({"pair": name, "edit_script": info.get("script"), "abstract": info.get("abstract")})
    chk.cov["rule"] = ("pairs: every (base, edited) reachable in spec/NotebookEdits.tla with <= 2 edit actions "
                       "(TLC-enumerated; seeded sample in the quick tier), seeded random walks (<= 6 edits, <= 8 cells) "
                       "and unrelated pairs; non-trivial = the two notebooks differ; distinct by abstract pair")
    chk.assumptions += [
        "harness/concretize.py produces schema-valid notebooks (each is validated with nbformat; invalid ones are discarded and counted)",
        "harness/encode.py value encoding; spec/DiffFormat.tla as the meaning of the diff format",
        "nbdiff/nbpatch are called in-process through their main(argv) entry points with an empty, private jupyter config dir",
    ]
    return chk.finish()


if __name__ == "__main__":
    common.main(run)
