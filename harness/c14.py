"""C14 - ignore options hide exactly the ignored categories and nothing else.

spec : IgnoreMatrix.tla (TLC enumerates ignored x differing x channel and derives ExpectEmpty / ExpectNonEmpty),
       NbPaths.tla (path categories, Mask), DiffContract.tla / DiffTrace.tla clauses NoIgnoredPath, RoundTrip on the
       masked notebooks, IgnoredOnlyEmpty.
s->c : for every case a pair differing in exactly the 'differing' categories (at every level at which the category
       exists: notebook / cell / output metadata, cell and execute_result execution counts, outputs of every type) is
       diffed in a pristine interpreter configured through the real channel: positive flags, negative flags (the nbdiff
       argument parser + process_diff_flags), an 'Ignore' mapping or the ignorable booleans in nbdime_config.json
       (read by ConfigBackedParser).
"""
import copy
import io
import json
import multiprocessing
import os
import shutil
import sys
import contextlib

import nbformat

from . import common, tlc, concretize
from .common import Check
from .diffdrv import diff_event, to_plain
from .c02 import classify

CFG = """SPECIFICATION Spec
CONSTANT EMIT = TRUE
INVARIANT Consistent
CONSTRAINT Emit
CHECK_DEADLOCK FALSE
"""
CLAUSES = ("Completes", "NoIgnoredPath", "RoundTrip", "IgnoredOnlyEmpty")
SHORT = {"sources": "s", "outputs": "o", "attachments": "a", "metadata": "m", "id": "i", "details": "d"}
IGNMAP = {"sources": {"/cells/*/source": True}, "outputs": {"/cells/*/outputs": True}, "attachments": {"/cells/*/attachments": True},
          "metadata": {"/metadata": True, "/cells/*/metadata": True, "/cells/*/outputs/*/metadata": True},
          "id": {"/cells/*/id": True},
          "details": {"/cells/*": ["execution_count"], "/cells/*/outputs/*": ["execution_count"]}}
LEAFMAP = dict(IGNMAP, details={"/cells/*/execution_count": True, "/cells/*/outputs/*/execution_count": True})
BASES = []


def make_bases():
    """notebooks with outputs of every type carrying their own metadata / execution counts"""
    out = []
    for minor in (5, 4):
        ab = {"minor": minor, "nbmd": 1, "cells": [
            {"cid": 1, "fam": 1, "kind": "code", "src": 0, "outs": 2, "md": 1, "ec": 1, "att": 0},
            {"cid": 2, "fam": 2, "kind": "markdown", "src": 0, "outs": 0, "md": 2, "ec": 0, "att": 1},
            {"cid": 3, "fam": 3, "kind": "code", "src": 0, "outs": 4, "md": 0, "ec": 2, "att": 0},
            {"cid": 4, "fam": 7, "kind": "code", "src": 0, "outs": 3, "md": 0, "ec": 1, "att": 0},
            # never executed: execution counts are null
            {"cid": 5, "fam": 5, "kind": "code", "src": 0, "outs": 2, "md": 0, "ec": 0, "att": 0}]}
        nb = concretize.concrete(ab)
        # a cell whose two outputs are equal up to their execution counts, and two cells with the same source whose
        # outputs differ: content that can only be aligned by what an ignore option may hide
        ex = lambda n: {"output_type": "execute_result", "execution_count": n, "metadata": {}, "data": {"text/plain": "5"}}  # noqa
        st = lambda t: {"output_type": "stream", "name": "stdout", "text": t}  # noqa
        extra = [{"cell_type": "code", "metadata": {}, "execution_count": 2, "source": "five = 5\nfive", "outputs": [ex(1), ex(2)]},
                 {"cell_type": "code", "metadata": {}, "execution_count": 3, "source": "step()", "outputs": [st("state 1\n")]},
                 {"cell_type": "code", "metadata": {}, "execution_count": 4, "source": "step()", "outputs": [st("state 2\n")]}]
        for j, c in enumerate(extra):
            if minor >= 5:
                c["id"] = "extra-%d" % j
            nb.cells.append(nbformat.from_dict(c))
        assert concretize.is_valid(nb)
        out.append(nb)
    return out


def vary(nb, differing, variant, ignored=()):
    """a copy of nb that differs from it in exactly the given categories (ignored: the categories that will be ignored -
    the variations that only make sense for ignored content, such as two cells exchanging their ids, are made only then)"""
    b = copy.deepcopy(nb)
    vary.tags = []
    code = [c for c in b.cells if c.cell_type == "code" and not c.source.startswith(("five", "step"))]
    five = [c for c in b.cells if c.source.startswith("five")][0]
    steps = [c for c in b.cells if c.source.startswith("step")]
    md = [c for c in b.cells if c.cell_type == "markdown"]
    if "sources" in differing:
        c = b.cells[variant % len(b.cells)]
        lines = c.source.splitlines(True)
        lines[len(lines) // 2] = lines[len(lines) // 2].rstrip("\r\n") + " # edited\n"
        c.source = "".join(lines)
        if variant % 5 == 4 and "sources" in ignored and "id" not in ignored and "id" not in differing and b.nbformat_minor >= 5:
            c.source = lines       # the on-disk form of a multi-line string: a list of lines (cells are aligned by id)
    if "outputs" in differing:
        c = code[variant % len(code)]
        o = c.outputs[0]
        if o.output_type == "stream":
            o.text = o.text + "one more line\n"
        elif "data" in o:
            o.data["text/plain"] = o.data["text/plain"] + " changed"
        else:
            o.evalue = o.evalue + "!"
        if variant % 2:
            code[(variant + 1) % len(code)].outputs.append(nbformat.v4.new_output("stream", name="stdout", text="extra\n"))
        if variant % 4 == 3 and "outputs" in ignored:
            # the two cells with the same source were run once more: each now shows what the next run printed
            steps[0].outputs[0].text = "state 2\n"
            steps[1].outputs[0].text = "state 3\n"
            vary.tags.append("equal-sources-outputs-shifted" + ("" if b.nbformat_minor >= 5 else "-idless"))
    if "attachments" in differing:
        a = md[0].setdefault("attachments", {}) if b.nbformat_minor >= 1 else None
        if a is not None:
            if variant % 3 == 2 and a:
                del md[0]["attachments"]          # the cell loses its attachments altogether (the key is optional)
            else:
                if variant % 2 and a:
                    a.pop(sorted(a)[0])
                a["new.png"] = {"image/png": concretize.B64B}
    if "metadata" in differing:
        which = variant % 3
        if which == 0:
            b.metadata["custom_key"] = {"v": variant}
            b.cells[0].metadata["tags"] = ["x%d" % variant]
        elif which == 1:
            # metadata of outputs that have it: display_data / execute_result
            for c in code:
                for o in c.outputs:
                    if "metadata" in o:
                        o.metadata["changed"] = variant
        else:
            b.cells[1].metadata["collapsed"] = not b.cells[1].metadata.get("collapsed", False)
            for c in code:
                for o in c.outputs:
                    if "metadata" in o:
                        o.metadata["isolated"] = "flip"
    if "id" in differing and b.nbformat_minor >= 5:
        if variant % 3 == 1 and "id" in ignored:
            i, j = variant % len(b.cells), (variant + 2) % len(b.cells)        # two cells exchange their ids
            b.cells[i]["id"], b.cells[j]["id"] = b.cells[j]["id"], b.cells[i]["id"]
        elif variant % 3 == 2 and "id" in ignored:
            # the other notebook is the same notebook saved by an older tool: format 4.4, whose cells have no id key at
            # all (one-sided keys of an ignored category; the format number itself is not in any category)
            for c in b.cells:
                del c["id"]
            b.nbformat_minor = 4
            vary.tags.append("resaved-as-4.4")
        else:
            b.cells[variant % len(b.cells)]["id"] = "renamed-%d" % variant
    if "details" in differing:
        c = code[variant % len(code)]
        cleared = variant % 3 == 1 and c.execution_count is not None        # int -> null (outputs cleared and re-run state lost)
        c.execution_count = None if cleared else (c.execution_count or 0) + 10      # null -> int for never executed cells
        for c in code:
            for o in c.outputs:
                if o.output_type == "execute_result":
                    o.execution_count = None if (cleared and o.execution_count is not None) else (o.execution_count or 0) + 10
        if variant % 3 == 2 and "details" in ignored:
            # re-run: the counts of the two equal outputs shift by one (the first now carries the count the second had)
            five.execution_count += 1
            for o in five.outputs:
                o.execution_count += 1
    return b


def evaluate(task):
    k, case, root = task
    d = os.path.join(root, "c%d" % k)
    os.makedirs(d)
    old_cwd, old_env, old_argv = os.getcwd(), dict(os.environ), list(sys.argv)
    os.chdir(d)
    os.environ["JUPYTER_CONFIG_DIR"] = os.path.join(d, "jcfg")
    os.environ["JUPYTER_CONFIG_PATH"] = os.path.join(d, "jcfg")
    os.environ["HOME"] = d
    try:
        from nbdime import nbdiffapp, diff_notebooks, patch_notebook
        from nbdime.args import process_diff_flags
        ignored = [c for c in SHORT if c in case["ignored"]]
        ch = case["channel"]
        flags = []
        if ch == "positive":
            flags = ["-" + SHORT[c] for c in SHORT if c not in ignored]
        elif ch == "negative":
            flags = ["-" + SHORT[c].upper() for c in ignored]
        elif ch == "mapflags":
            flags = ["-" + SHORT[c].upper() for c in ignored if c != "id"]
            with io.open("nbdime_config.json", "w") as f:
                json.dump({"NbDiff": {"Ignore": {"/cells/*": ["id"]}}}, f)
        elif ch in ("keylist", "splitmap"):
            m = {}
            for c in ignored:
                m.update(copy.deepcopy(IGNMAP[c]))
            if ch == "keylist" and "metadata" in ignored:
                # name exactly the metadata keys harness/c14.vary changes instead of the whole sub-documents
                m["/metadata"] = ["custom_key"]
                m["/cells/*/metadata"] = ["tags", "collapsed"]
                del m["/cells/*/outputs/*/metadata"]
                m["/cells/*/outputs/*"] = ["metadata"] + (["execution_count"] if "details" in ignored else [])
            if ch == "splitmap":
                keys = sorted(m)
                first = {p: m[p] for p in keys[0::2]}
                second = {p: m[p] for p in keys[1::2]}
                os.makedirs(os.environ["JUPYTER_CONFIG_DIR"], exist_ok=True)
                with io.open(os.path.join(os.environ["JUPYTER_CONFIG_DIR"], "nbdime_config.json"), "w") as f:
                    json.dump({"Diff": {"Ignore": first}}, f)
                with io.open("nbdime_config.json", "w") as f:
                    # an explicitly empty mapping in the section the other file fills (what `--config` prints) adds nothing
                    json.dump(dict({"NbDiff": {"Ignore": second}}, **({"Diff": {"Ignore": {}}} if k % 2 else {})), f)
            else:
                with io.open("nbdime_config.json", "w") as f:
                    json.dump({"NbDiff": {"Ignore": m}}, f)
        elif ch in ("ignoremap", "leafmap"):
            m = {}
            for c in SHORT:
                for p, v in (IGNMAP if ch == "ignoremap" else LEAFMAP)[c].items():
                    if c in ignored:
                        m[p] = v
                    elif k % 2 and v is True:
                        m[p] = False           # say explicitly that it is not ignored
            with io.open("nbdime_config.json", "w") as f:
                json.dump({"NbDiff" if k % 3 else "Diff": {"Ignore": m}}, f)
        else:
            with io.open("nbdime_config.json", "w") as f:
                json.dump({"NbDiff" if k % 3 else "GitDiff": {c: False for c in ignored}}, f)
        with contextlib.redirect_stderr(io.StringIO()):
            args = nbdiffapp._build_arg_parser(prog="nbdiff").parse_args(flags + ["a.ipynb", "b.ipynb"])
        process_diff_flags(args)
        a = BASES[k % len(BASES)]
        differing = [c for c in case["differing"] if isinstance(case["differing"], list)]
        if a.nbformat_minor < 5 and "id" in differing:
            a = BASES[0]
        b = vary(a, differing, k, ignored)
        extra = {"ign": ignored, "expectEmpty": bool(case["expectEmpty"]) and "resaved-as-4.4" not in vary.tags}
        ev, dd = diff_event("m%d" % k, a, b, diff_notebooks, patch_notebook, snapshot=False, extra=extra)
        ev["_nonempty_expected"] = bool(case["expectNonEmpty"]) and dd is not None and len(dd) == 0 and a != b
        ev["_valid"] = concretize.is_valid(b)
        ev["_tags"] = list(vary.tags)
        return ev
    finally:
        os.chdir(old_cwd)
        os.environ.clear()
        os.environ.update(old_env)
        sys.argv = old_argv
        shutil.rmtree(d, True)


def run():
    global BASES
    chk = Check("C14")
    concretize.self_check()
    r = tlc.run("IgnoreMatrix", CFG, workers=1, timeout=900, name="IgnoreMatrix", xmx="4g")
    if r.invariant_violated or r.error:
        raise tlc.TLCError("IgnoreMatrix: %s\n%s" % (r.error, r.out[-1500:]))
    chk.add_model(r, "IgnoreMatrix 64 x 64 x 8 channels")
    # design level: with ids ignored the cell alignment is a function of the contents alone (CellAlign.tla:
    # IgnoredIdsIrrelevant, ExchangedIdsInvisible), compared with nbdime's predicates under identifier=False
    from . import align
    align.cell_align(chk, 2, 1 if chk.quick else 2, True)
    # ... and with the details ignored the alignment of a cell's outputs does not look at execution counts
    align.cell_align(chk, 2 if chk.quick else 3, 0, True, kind="outputs")
    seen, cases = set(), []
    for c in r.json_lines("CASE"):
        for f in ("ignored", "differing"):
            if isinstance(c[f], dict):
                c[f] = []
        key = json.dumps(c, sort_keys=True)
        if key not in seen:
            seen.add(key)
            cases.append(c)
    rr = common.rng("c14")
    if chk.quick:
        rr.shuffle(cases)
        # keep every 'differs only in ignored' case class represented
        cases = sorted(cases, key=lambda c: (not c["expectEmpty"]))[:800] + cases[-1000:]
    import nbdime.nbdiffapp  # noqa  (parent stays pristine: import only)
    BASES = make_bases()
    root = tlc.subdir("c14")
    ctx = multiprocessing.get_context("fork")
    with ctx.Pool(common.NCPU, maxtasksperchild=1) as pool:
        events = pool.map(evaluate, [(k, c, root) for k, c in enumerate(cases)], chunksize=1)
    bad = 0
    missed = []
    tags = {}
    for ev, c in zip(events, cases):
        tags[ev["tid"]] = ev.pop("_tags", [])
        if not ev.pop("_valid"):
            bad += 1
        if ev.pop("_nonempty_expected"):
            missed.append((ev["tid"], c))
        chk.count((c["ignored"], c["differing"], c["channel"]), nontrivial=bool(c["differing"]))
    byid = {ev["tid"]: ev for ev in events}
    v = common.validate("DiffTrace", common.diff_trace_cfg(), events, batch=120, name="c14")
    chk.add_validation(v, "DiffTrace (ign / expectEmpty) on %d cases" % len(events))
    casemap = {ev["tid"]: c for ev, c in zip(events, cases)}
    for tid, clauses in v.fails.items():
        c = casemap[tid]
        cl = [x for x in clauses if x in CLAUSES]
        for x in cl:
            cats = sorted(set(c["ignored"]) & set(c["differing"]))
            d = byid[tid].get("d") or []
            whole_cells = (len(d) == 1 and d[0].get("op") == "patch" and d[0].get("key") == "cells"
                           and any(e.get("op") in ("addrange", "removerange") for e in d[0].get("diff", [])))
            shifted = [t for t in tags[tid] if t.startswith("equal-sources-outputs-shifted")]
            if (x == "IgnoredOnlyEmpty" and shifted and "outputs" in c["ignored"] and whole_cells
                    and (shifted[0].endswith("-idless") or "id" in c["ignored"])):
                chk.violation("ignore:alignment-by-ignored-outputs:cells-with-equal-source-not-identified-by-id",
                              "outputs ignored, yet cells with equal sources (and no ids, or ignored ids) are aligned by their "
                              "outputs: whole cells are reported removed / inserted (channel %s)" % c["channel"], {"case": c, "diff": d})
                continue
            chk.violation("ignore:%s:%s:%s" % (x, c["channel"], ",".join(cats) or "-"),
                          "clause %s false with ignored=%s differing=%s channel=%s" % (x, c["ignored"], c["differing"], c["channel"]),
                          {"case": c, "failed": clauses, "a": common.json.loads(common.json.dumps(to_plain(BASES[0])))[:0] if False else None,
                           "diff": byid[tid].get("d"), "raised": byid[tid].get("raised")})
    chk.notes["cases_with_invalid_generated_notebook"] = bad
    chk.notes["cases_enumerated_by_tlc"] = len(seen)
    chk.sample(cases[0])
    chk.sample(cases[-1])
    chk.cov["rule"] = ("cases = initial states of spec/IgnoreMatrix.tla (64 ignored subsets x 64 differing subsets x 8 channels, "
                       "inexpressible positive-flag cases removed); quick keeps 700 'only ignored differs' cases + 900 others; each in "
                       "its own pristine interpreter; non-trivial = the notebooks differ")
    chk.assumptions += ["the pair generator changes exactly the 'differing' categories (checked by construction in harness/c14.vary)",
                        "'reports nothing inside an ignored category' = no diff entry whose starred path lies in an ignored category "
                        "(spec/NbPaths.tla); whole-cell insertions caused by dissimilar ignored sources are not counted"]
    return chk.finish()


if __name__ == "__main__":
    common.main(run)
