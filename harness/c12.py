"""C12 - diffing is a pure function of its inputs: no dependence on process history.

spec : Process.tla - the interpreter's only relevant state is the ignore table `ign`; TLC enumerates every
       history up to a bound over an alphabet of ignore-configuration operations and diff/merge calls and
       checks CallsArePure, ResetRestores, ShowAllRestores, TargetsIdempotent.
s->c : every history is replayed in a pristine interpreter (fork of a parent that only imported nbdime);
       after each step the real differ table is projected onto `ign` and compared with the model; every
       call's result is compared with the result of the same call in a pristine interpreter put into the
       model's ign state by a canonical (at most two-step) set_notebook_diff_ignores installation.
"""
import copy
import io
import json
import multiprocessing
import os
import contextlib

import nbformat

from . import common, tlc, concretize, mergedrv
from .common import Check
from .diffdrv import to_plain
from .encode import canon

CFG = """SPECIFICATION Spec
CONSTANT MaxLen = %d
CONSTANT Calls = {%s}
CONSTANT TargetSets = {%s}
CONSTANT IgnoreMaps = {%s}
CONSTANT ResetCalls = {%s}
CONSTANT EMIT = TRUE
INVARIANT TypeOK
INVARIANT ResetRestores
INVARIANT ShowAllRestores
INVARIANT TargetsIdempotent
PROPERTY CallsArePure
CONSTRAINT Emit
CHECK_DEADLOCK FALSE
"""
ALLCATS = ("sources", "outputs", "attachments", "metadata", "id", "details")
MAPS = {"cellmeta-keys": {"/cells/*/metadata": ["collapsed", "tags"]}, "nbmeta-true": {"/metadata": True},
        "outputs-false": {"/cells/*/outputs": False}, "cell-keys": {"/cells/*": ["metadata"]}}
PATHS = ("/cells/*/source", "/cells/*/outputs", "/cells/*/attachments", "/metadata", "/cells/*/id",
         "/cells/*/metadata", "/cells/*/outputs/*/metadata", "/cells/*", "/cells/*/outputs/*")

POOL = {}


def build_pool():
    base = {"minor": 5, "nbmd": 1, "cells": [
        {"cid": 1, "fam": 1, "kind": "code", "src": 0, "outs": 2, "md": 1, "ec": 1, "att": 0},
        {"cid": 2, "fam": 2, "kind": "markdown", "src": 0, "outs": 0, "md": 2, "ec": 0, "att": 1},
        {"cid": 3, "fam": 3, "kind": "code", "src": 0, "outs": 4, "md": 0, "ec": 2, "att": 0}]}

    def ab(**edits):
        nb = json.loads(json.dumps(base))
        for k, v in edits.items():
            i, f = k.split("_")
            nb["cells"][int(i[1:])][f] = v
        return nb
    A = concretize.concrete(base)
    B = concretize.concrete(dict(ab(c0_src=2, c0_outs=5, c0_ec=2, c0_md=2, c1_att=2, c1_src=1, c2_outs=1), nbmd=2))
    C = concretize.concrete(ab(c0_src=1, c2_md=1, c2_ec=1))

    def with_layout(nb, nbval, cellval, jsonval):
        nb = copy.deepcopy(nb)
        nb.metadata["layout"] = nbval
        nb.cells[0].metadata["layout"] = cellval
        nb.cells[2].outputs[0]["data"]["application/json"] = jsonval
        return nb
    lol1 = with_layout(A, [[1, 2], [3]], [[1], [2]], [[1, 2], [3]])
    lol2 = with_layout(A, [[1, 2], [3, 4]], [[1], [2, 3]], [[1, 2], [3, 5]])
    loo1 = with_layout(A, [{"a": 1}, {"a": 2}], [{"k": 1}, {"k": 2}], [{"a": 1}, {"a": 2}])
    loo2 = with_layout(A, [{"a": 1}, {"a": 3}], [{"k": 1}, {"k": 3}], [{"a": 1}, {"a": 5}])
    obj1 = with_layout(A, {"a": 1, "b": [1]}, {"k": 1}, {"a": [1, 2]})
    obj2 = with_layout(A, {"a": 2, "b": [1]}, {"k": 2}, {"a": [1, 3]})
    # texts whose similarity ratio depends on argument order (line swap)
    sw1, sw2 = copy.deepcopy(A), copy.deepcopy(A)
    # difflib's ratio is not symmetric: ratio(S1, S2) = 0.39 (dissimilar) but ratio(S2, S1) = 0.77 (similar)
    S1 = "import os\nprint(x, y)\nx = compute(1)\nimport sys\nprint(result)\n"
    S2 = "import sys\nx = compute(1)\nprint(x, y)\nimport os\nprint(result)\n"
    import difflib
    r12 = difflib.SequenceMatcher(None, S1, S2, autojunk=False).ratio()
    r21 = difflib.SequenceMatcher(None, S2, S1, autojunk=False).ratio()
    assert r12 < 0.7 < r21, (r12, r21)
    sw1.cells[0].source = S1
    sw2.cells[0].source = S2
    sw1.cells[0].pop("id", None), sw2.cells[0].pop("id", None)
    sw1.cells[0]["id"] = "x1"
    sw2.cells[0]["id"] = "x2"
    # the on-disk JSON form of a notebook (multi-line strings as lists of lines) is schema-valid input too
    import nbformat
    rawA = json.loads(nbformat.writes(copy.deepcopy(A)))
    # aligned outputs that differ in a string-valued mime entry no specialised differ looks into
    ven1 = copy.deepcopy(A)
    ven1.cells[0].outputs = [nbformat.v4.new_output("display_data", data={"text/plain": "a chart", "application/vnd.acme.chart": "series one\nbar chart v1\n"})]
    ven2 = copy.deepcopy(ven1)
    ven2.cells[0].outputs[0]["data"]["application/vnd.acme.chart"] = "series one\nbar chart v2\n"
    # both sides append the same new cell, run with different results: the merger aligns the inserted cells with a
    # differ configuration of its own (a copy of the notebook configuration taken inside the merge)
    def appended(text):
        nb = copy.deepcopy(A)
        nb.cells.append(nbformat.from_dict({"cell_type": "code", "id": "appended", "metadata": {}, "execution_count": 9,
                                            "source": "report(total)\n",
                                            "outputs": [{"output_type": "stream", "name": "stdout", "text": text}]}))
        return nb
    # an output that was re-run: the old result again with the next execution count, followed by a similar one (which
    # of the two the old output is paired with depends on whether execution counts are looked at)
    def reran(count, second):
        nb = copy.deepcopy(A)
        res = lambda ec, text: nbformat.v4.new_output("execute_result", data={"text/plain": text}, execution_count=ec)  # noqa
        # (the second text is approximately, not strictly, similar to the first: difflib ratio between 0.7 and 0.95)
        text, other = concretize.source_variant(1, 0), concretize.source_variant(1, 2)
        nb.cells[0].outputs = [res(count, text)] + ([res(count + 1, other)] if second else [])
        nb.cells[0].execution_count = count + (1 if second else 0)
        return nb
    # both sides rewrite the same lines of one source; merged with the input strategy "fail" this raises (by design)
    ab = lambda **kw: concretize.concrete(dict(json.loads(json.dumps(base)), cells=[dict(base["cells"][0], **kw)] + base["cells"][1:]))  # noqa
    pool = {
        "d_ecshift": ("diff", reran(1, False), reran(2, True)),
        "m_fail": ("mergefail", A, ab(src=5), ab(src=6)),
        "m_ins": ("merge", A, appended("total: 41\n"), appended("total: 42\nsecond line\n")),
        "d_vendor": ("diff", ven1, ven2),
        "d_raw": ("diff", A, rawA), "d_plain": ("diff", A, B), "d_rev": ("diff", B, A), "d_lol": ("diff", lol1, lol2), "d_loo": ("diff", loo1, loo2),
        "d_obj": ("diff", obj1, obj2), "d_swap": ("diff", sw1, sw2), "d_swaprev": ("diff", sw2, sw1),
        "m_plain": ("merge", A, B, C), "m_lol": ("merge", lol1, lol2, with_layout(C, [[1, 2], [3], [9]], [[1], [2]], [[1, 2], [3]])),
        "m_loo": ("merge", loo1, loo2, with_layout(C, [{"a": 1}, {"a": 2}, {"a": 9}], [{"k": 1}, {"k": 2}], [{"a": 1}, {"a": 2}])),
    }
    for k, v in pool.items():
        for nb in v[1:]:
            assert concretize.is_valid(nb), (k, concretize.schema_errors(nb))
    return pool


# ---------------------------------------------------------------------------
# running operations on the real interpreter
# ---------------------------------------------------------------------------
def project():
    """abstract content of nbdime's differ table: path -> (all, sorted keys)"""
    import nbdime.diffing.notebooks as nbd
    out = {}
    for p in PATHS:
        v = dict.get(nbd.notebook_differs, p)
        dflt = nbd.notebook_differs.default_values.get(p, nbd.diff)
        allp, keys = False, set()
        seen = 0
        while v is not None and v is not dflt and seen < 50:
            seen += 1
            if v is nbd.diff_ignore:
                allp = True
                break
            if getattr(v, "__name__", "") == "ignored_diff" and v.__closure__:
                inner, ks = None, None
                for cell in v.__closure__:
                    c = cell.cell_contents
                    if callable(c):
                        inner = c
                    else:
                        ks = c
                keys |= set(ks or ())
                v = inner
                continue
            return None          # the table is not stored the way this projection understands: no state comparison
        out[p] = [allp, sorted(keys)]
    return out


def model_ign(ign):
    return {p: [ign[p]["all"], sorted(ign[p]["keys"]) if not isinstance(ign[p]["keys"], dict) else []] for p in PATHS}


def do_call(name):
    kind = POOL[name][0]
    try:
        if kind == "diff":
            from nbdime import diff_notebooks
            a, b = copy.deepcopy(POOL[name][1]), copy.deepcopy(POOL[name][2])
            return "ok:" + canon(to_plain(diff_notebooks(a, b)))
        from nbdime.merging.notebooks import merge_notebooks
        b, l, r = (copy.deepcopy(x) for x in POOL[name][1:])
        args = mergedrv.strategy_args("mergetool", "fail") if kind == "mergefail" else mergedrv.strategy_args("mergetool")
        merged, dec = merge_notebooks(b, l, r, args)
        return "ok:" + canon([to_plain(merged), json.loads(json.dumps(dec))])
    except Exception as e:  # noqa
        t, w = common.exc_info(e)
        return "raised:%s:%s:%s" % (t, w, str(e)[:120])


def apply_op(op, workdir):
    import nbdime.diffing.notebooks as nbd
    k = op["kind"]
    if k == "targets":
        show = set(op["show"]) if not isinstance(op["show"], dict) else set()
        if op["via"] == "api":
            nbd.set_notebook_diff_targets(**{("identifier" if c == "id" else c): (c in show) for c in ALLCATS})
        else:
            from nbdime import nbdiffapp
            from nbdime.args import process_diff_flags
            short = {"sources": "s", "outputs": "o", "attachments": "a", "metadata": "m", "id": "i", "details": "d"}
            if 0 < len(show) <= 3:
                flags = ["-" + short[c] for c in sorted(show)]
            else:
                flags = ["-" + short[c].upper() for c in ALLCATS if c not in show]
            with contextlib.redirect_stderr(io.StringIO()):
                args = nbdiffapp._build_arg_parser().parse_args(flags + ["a.ipynb", "b.ipynb"])
            process_diff_flags(args)
        return None
    if k == "ignores":
        nbd.set_notebook_diff_ignores(copy.deepcopy(MAPS[op["name"]]))
        return None
    if k == "reset":
        nbd.reset_notebook_differ()
        return None
    return do_call(op["call"])


def canonical_maps(ign):
    """(first, second) Ignore mappings that install the abstract state from the default state"""
    first, second = {}, {}
    for p, (allp, keys) in ign.items():
        if allp:
            first[p] = True
        if keys:
            second[p] = list(keys)
    return first, second


def _run_history(task):
    """child of a pristine parent: replay one history; returns list of (projected ign, result)"""
    hist, workdir = task
    out = []
    for step in hist:
        try:
            res = apply_op(step["op"], workdir)
        except SystemExit as e:
            res = "raised:SystemExit:%s" % (e.code,)
        except Exception as e:  # noqa
            t, w = common.exc_info(e)
            res = "opraised:%s:%s:%s" % (t, w, str(e)[:120])
        out.append((project(), res))
    return out


def _run_oracle(task):
    (call, ignkey) = task
    import nbdime.diffing.notebooks as nbd
    ign = json.loads(ignkey)
    for m in canonical_maps(ign):
        if m:
            nbd.set_notebook_diff_ignores(m)
    pr = project()
    return (call, ignkey, do_call(call), pr is None or pr == ign)


def pristine_map(fn, tasks):
    """each task in its own forked child of this (pristine) process"""
    ctx = multiprocessing.get_context("fork")
    with ctx.Pool(common.NCPU, maxtasksperchild=1) as pool:
        return pool.map(fn, tasks, chunksize=1)


def run():
    global POOL
    chk = Check("C12")
    concretize.self_check()
    mergedrv.quiet_logging()
    import nbdime.diffing.notebooks  # noqa  (import only: the parent stays pristine)
    import nbdime.merging.notebooks  # noqa
    import nbdime.nbdiffapp  # noqa
    POOL = build_pool()
    work = tlc.subdir("c12")
    from .c01 import isolate_config
    isolate_config(work)
    os.chdir(work)
    if chk.quick:
        maxlen = 3
        calls = ["d_plain", "d_raw", "d_vendor", "d_lol", "d_loo", "d_obj", "d_swap", "d_swaprev", "m_lol", "m_ins", "m_plain",
                 "m_fail", "d_ecshift"]
        targets = [ALLCATS, ("sources",), ("sources", "outputs", "attachments", "metadata", "id")]
        maps = ["cellmeta-keys", "nbmeta-true"]
    else:
        maxlen = 4
        calls = sorted(POOL)
        targets = [ALLCATS, ("sources",), ("sources", "outputs", "attachments", "metadata", "id"),
                   ("sources", "attachments", "id", "details"), ("outputs", "metadata")]
        maps = sorted(MAPS)
    q = lambda xs: ", ".join('"%s"' % x for x in xs)  # noqa
    resetcalls = ["d_ecshift"] if chk.quick else ["d_ecshift", "d_plain", "m_ins"]
    configs = [(maxlen, calls, targets, maps, resetcalls)]
    if not chk.quick:
        # every call / target set / map at length 3, and length 4 over a subset drawn with the run's seed (the number of
        # histories grows with the fourth power of the alphabet: 2.3 M with everything)
        rr = common.rng("c12-subset")
        some = sorted(set(["d_ecshift", "m_fail", "m_ins"] + rr.sample(sorted(POOL), min(6, len(POOL)))))
        configs = [(3, calls, targets, maps, resetcalls),
                   (4, some, targets[:3], rr.sample(sorted(MAPS), min(2, len(MAPS))), ["d_ecshift"])]
    cap = 11000 if chk.quick else 5000
    maximal = []
    for ml, cs, ts, ms, rcs in configs:
        cfg = CFG % (ml, q(cs), ", ".join("{%s}" % q(t) for t in ts), q(ms), q(rcs))
        r = tlc.run("Process", cfg, workers=1, timeout=3000, name="Process-%d" % ml, xmx="8g")
        if r.invariant_violated or r.error:
            raise tlc.TLCError("Process: %s\n%s" % (r.error, "\n".join(l for l in r.out.splitlines() if not l.startswith('"'))[-2000:]))
        chk.add_model(r, "Process MaxLen=%d, %d calls, %d target sets, %d ignore maps" % (ml, len(cs), len(ts), len(ms)))
        hists = r.json_lines("HIST")
        # only maximal histories need replaying (every prefix is replayed on the way)
        mx = [h for h in hists if len(h) >= ml]        # (a reset glued to a call is two entries in one step)
        del hists
        if len(mx) > cap:
            chk.notes["maximal_histories_enumerated_len%d" % ml] = len(mx)
            common.rng("c12").shuffle(mx)
            mx = mx[:cap]
            chk.cov["exhaustive"] = False
        maximal += mx
    # a history without any call checks only the state projection: keep those too
    tasks = [(h, work) for h in maximal]
    replayed = pristine_map(_run_history, tasks)
    # oracle
    need = set()
    for h in maximal:
        for step in h:
            if step["op"]["kind"] == "call":
                need.add((step["op"]["call"], json.dumps(model_ign(step["ign"]), sort_keys=True)))
    oracle = {}
    for call, ignkey, res, proj_ok in pristine_map(_run_oracle, sorted(need)):
        oracle[(call, ignkey)] = res
        if not proj_ok:
            chk.violation("oracle-state-not-installable", "canonical set_notebook_diff_ignores did not install the model state",
                          {"call": call, "ign": json.loads(ignkey)})
    ncalls = 0
    for h, out in zip(maximal, replayed):
        for k, (step, (proj, res)) in enumerate(zip(h, out)):
            want = model_ign(step["ign"])
            opdesc = [s["op"] for s in h[:k + 1]]
            chk.count(opdesc, nontrivial=True)
            if proj is None:
                chk.notes["state_projection_unavailable"] = chk.notes.get("state_projection_unavailable", 0) + 1
            elif proj != want:
                chk.violation("state:%s" % step["op"]["kind"],
                              "after %s the differ table is not the model's ignore state" % json.dumps(step["op"]),
                              {"history": opdesc, "model": want, "real": proj})
                break
            if step["op"]["kind"] == "call":
                ncalls += 1
                exp = oracle[(step["op"]["call"], json.dumps(want, sort_keys=True))]
                if res != exp:
                    what = "raises" if res.startswith("raised") and not exp.startswith("raised") else "differs"
                    chk.violation("history-dependent-result:%s:%s" % (step["op"]["call"], what),
                                  "result of %s after this history differs from a pristine interpreter in the same ignore state"
                                  % step["op"]["call"],
                                  {"history": opdesc, "result": res[:600], "pristine": exp[:600]})
                    break
            elif res is not None:
                chk.violation("config-op-raised:%s" % step["op"]["kind"], "configuration operation failed: %s" % res,
                              {"history": opdesc})
                break
    chk.cov["traces_validated_against_impl"] = len(maximal)
    chk.notes["histories_replayed"] = len(maximal)
    chk.notes["calls_compared_with_pristine_interpreter"] = ncalls
    chk.notes["pristine_oracle_runs"] = len(need)
    chk.sample({"history": [s["op"] for s in maximal[len(maximal) // 2]]})
    chk.sample({"history": [s["op"] for s in maximal[-1]]})
    chk.cov["exhaustive"] = not any(k.startswith("maximal_histories_enumerated") for k in chk.notes)
    chk.cov["rule"] = ("all histories " + " and ".join(
        "of length %d over the alphabet {%d calls, %d target sets x {api, flags}, %d Ignore maps, reset}" % (ml, len(cs), len(ts), len(ms))
        for ml, cs, ts, ms, rcs in configs) + " enumerated by TLC (at most %d maximal ones per alphabet replayed, drawn with the "
        "run's seed); each replayed in its own pristine interpreter; distinct by operation prefix" % cap)
    chk.assumptions += ["a fork of a parent that has only imported nbdime is as good as a freshly started interpreter",
                        "the projection reads nbdime.diffing.notebooks.notebook_differs (closure cells of diff_ignore_keys wrappers)",
                        "pool notebooks include metadata / JSON outputs whose value at one path is a list of lists, a list of objects, "
                        "or an object, and a cell pair whose similarity ratio depends on argument order"]
    os.chdir(common.VERIF)
    return chk.finish()


if __name__ == "__main__":
    common.main(run)
