"""C19 - option resolution follows flag > most specific config section > default.

spec : ConfigRes.tla - the documented rule (docs/source/config.rst: section lists per entry point, cwd before
       user-level before lower directories within one section, path-wise merge of 'Ignore'); TLC enumerates every
       assignment of an option to at most MaxSites (directory, section) sites, with and without a flag, and
       computes the winner.
s->c : every enumerated case is materialised for every representative option of the entry point
       (merge_strategy, input_strategy, port, ip, log_level, Ignore): nbdime_config.json files are written into a
       private cwd / JUPYTER_CONFIG_PATH entry / JUPYTER_CONFIG_DIR, then build_config(entry point) and the
       entry point's real argument parser are evaluated and compared with the model's winner.
"""
import io
import json
import multiprocessing
import os
import shutil
import sys
import contextlib

from . import common, tlc
from .common import Check

CFG = """SPECIFICATION Spec
CONSTANT EP = "%s"
CONSTANT NDirs = 3
CONSTANT MaxSites = %d
CONSTANT EMIT = TRUE
INVARIANT FlagWins
INVARIANT DefaultIffNothingSet
INVARIANT MostSpecificWins
INVARIANT CwdBeatsOtherDirsInSameSection
INVARIANT IgnoreMergedPathwise
CONSTRAINT Emit
CHECK_DEADLOCK FALSE
"""
EPS = {"nbdiff": "nbdiff", "nbdiffweb": "nbdiff-web", "nbmerge": "nbmerge", "nbmergeweb": "nbmerge-web", "nbshow": "nbshow",
       "server": "server", "extension": "extension", "gitnbdiffdriver": "git-nbdiffdriver", "gitnbdifftool": "git-nbdifftool",
       "gitnbmergedriver": "git-nbmergedriver", "gitnbmergetool": "git-nbmergetool"}

MERGE_S = {"Merge", "GitMerge", "NbMerge", "NbMergeWeb", "NbMergeDriver", "NbMergeTool"}
WEB_S = {"Web", "WebTool", "Server", "NbDiffWeb", "NbMergeWeb", "NbDiffTool", "NbMergeTool"}
IGN_S = {"Diff", "GitDiff", "NbDiff", "NbDiffWeb", "NbDiffDriver", "NbDiffTool", "Extension", "NbShow"} | MERGE_S
# option -> (sections that define it, default, candidate values (distinct), flag)
OPTIONS = {
    "merge_strategy": (MERGE_S, "inline", ["use-base", "use-local", "use-remote"], "--merge-strategy"),
    "input_strategy": (MERGE_S, None, ["use-base", "use-local", "use-remote"], "--input-strategy"),
    "port": (WEB_S, None, [9001, 9002, 9003], "--port"),
    "ip": (WEB_S, "127.0.0.1", ["10.0.0.1", "10.0.0.2", "10.0.0.3"], "--ip"),
    "log_level": ({"Global"}, "INFO", ["DEBUG", "WARN", "ERROR"], "--log-level"),
    "Ignore": (IGN_S, {}, None, None),
}
FLAG_VALUE = {"merge_strategy": "inline", "input_strategy": "inline", "port": 9555, "ip": "10.9.9.9", "log_level": "CRITICAL"}
IGN_PATH = {"P1": "/cells/*/metadata", "P2": "/metadata"}


def port_default(ep):
    return 8888 if ep == "server" else 0


# ---------------------------------------------------------------------------
# the real parsers
# ---------------------------------------------------------------------------
class _Captured(Exception):
    def __init__(self, opts):
        self.opts = opts


def parse(ep, flags):
    """Namespace the entry point's real parser produces for the given flags"""
    sys.argv = [ep]
    err = io.StringIO()
    with contextlib.redirect_stderr(err), contextlib.redirect_stdout(io.StringIO()):
        if ep == "nbdiff":
            from nbdime import nbdiffapp
            return nbdiffapp._build_arg_parser(prog="nbdiff").parse_args(flags + ["a.ipynb", "b.ipynb"])
        if ep == "nbmerge":
            from nbdime import nbmergeapp
            return nbmergeapp._build_arg_parser().parse_args(flags + ["b.ipynb", "l.ipynb", "r.ipynb"])
        if ep == "nbshow":
            from nbdime import nbshowapp
            return nbshowapp._build_arg_parser().parse_args(flags + ["a.ipynb"])
        if ep == "nbdiff-web":
            from nbdime.webapp import nbdiffweb
            return nbdiffweb.build_arg_parser().parse_args(flags + ["a.ipynb", "b.ipynb"])
        if ep == "nbmerge-web":
            from nbdime.webapp import nbmergeweb
            return nbmergeweb.build_arg_parser().parse_args(flags + ["b.ipynb", "l.ipynb", "r.ipynb"])
        if ep == "server":
            from nbdime.webapp import nbdimeserver
            return nbdimeserver._build_arg_parser().parse_args(flags)
        if ep == "git-nbdiffdriver":
            from nbdime.vcs.git import diffdriver
            glob = [f for f in flags if f in ("--log-level",) or (flags.index(f) > 0 and flags[flags.index(f) - 1] == "--log-level")]
            rest = [f for f in flags if f not in glob]
            return diffdriver._build_arg_parser().parse_args(glob + ["diff"] + rest + ["x.ipynb", "a", "0" * 40, "100644", "b", "1" * 40, "100644"])
        if ep == "git-nbmergedriver":
            from nbdime.vcs.git import mergedriver
            from nbdime import nbmergeapp
            orig = nbmergeapp.main_merge

            def cap(opts):
                raise _Captured(opts)
            nbmergeapp.main_merge = cap
            try:
                glob, rest = _split_global(flags)
                mergedriver.main(glob + ["merge"] + rest + ["b.ipynb", "l.ipynb", "r.ipynb", "7", "x.ipynb"])
            except _Captured as c:
                return c.opts
            finally:
                nbmergeapp.main_merge = orig
        if ep == "git-nbdifftool":
            from nbdime.vcs.git import difftool
            orig = difftool.show_diff

            def cap(before, after, opts):
                raise _Captured(opts)
            difftool.show_diff = cap
            try:
                # the diff sub-parser defines the generic options itself: flags go after the sub-command
                difftool.main(["diff"] + flags + ["l.ipynb", "r.ipynb", "x.ipynb"])
            except _Captured as c:
                return c.opts
            finally:
                difftool.show_diff = orig
        if ep == "git-nbmergetool":
            from nbdime.vcs.git import mergetool
            from nbdime.webapp import nbmergetool
            orig = nbmergetool.main_parsed

            def cap(opts):
                raise _Captured(opts)
            nbmergetool.main_parsed = cap
            try:
                mergetool.main(["merge"] + flags + ["b.ipynb", "l.ipynb", "r.ipynb", "m.ipynb"])
            except _Captured as c:
                return c.opts
            finally:
                nbmergetool.main_parsed = orig
    return None


DISPATCH = {"nbdiff": ("diff", ["a.ipynb", "b.ipynb"]), "nbmerge": ("merge", ["b.ipynb", "l.ipynb", "r.ipynb"]),
            "nbshow": ("show", ["a.ipynb"]), "nbdiff-web": ("diff-web", ["a.ipynb", "b.ipynb"]),
            "nbmerge-web": ("merge-web", ["b.ipynb", "l.ipynb", "r.ipynb"]), "server": ("server", [])}


def parse_other_invocation(ep, flags):
    """Namespace parsed when the entry point is run the other way it can be run: through the dispatcher
    (`nbdime diff ...`, program name 'nbdime'), or for the server as a module (`python -m nbdime.webapp.nbdimeserver`).
    The namespace is captured where the command's main() receives it from its parser."""
    from nbdime.args import ConfigBackedParser
    orig = ConfigBackedParser.parse_args

    def cap(self, *a, **k):
        raise _Captured(orig(self, *a, **k))
    ConfigBackedParser.parse_args = cap
    try:
        with contextlib.redirect_stderr(io.StringIO()), contextlib.redirect_stdout(io.StringIO()):
            if ep == "server" and flags is not None and len(flags) % 4 == 2:
                from nbdime.webapp import nbdimeserver
                sys.argv = ["nbdimeserver.py"]
                nbdimeserver.main(list(flags))
            else:
                from nbdime import __main__ as disp
                cmd, files = DISPATCH[ep]
                sys.argv = ["nbdime"]
                disp.main_dispatch([cmd] + list(flags) + files)
    except _Captured as c:
        return c.opts
    finally:
        ConfigBackedParser.parse_args = orig
        if hasattr(ConfigBackedParser, "default_entrypoint"):
            ConfigBackedParser.default_entrypoint = None
    return None


def _split_global(flags):
    """--log-level belongs to the top-level parser of the git tools"""
    glob, rest = [], []
    k = 0
    while k < len(flags):
        if flags[k] == "--log-level":
            glob += flags[k:k + 2]
            k += 2
        else:
            rest.append(flags[k])
            k += 1
    return glob, rest


# ---------------------------------------------------------------------------
def evaluate(task):
    k, epkey, opt, case, root = task
    ep = EPS[epkey]
    d = os.path.join(root, "c%d" % k)
    dirs = {1: os.path.join(d, "cwd"), 2: None, 3: None}
    extra, user = os.path.join(d, "extra"), os.path.join(d, "user")
    for p in (dirs[1], extra, user):
        os.makedirs(p)
    old_env, old_cwd, old_argv = dict(os.environ), os.getcwd(), list(sys.argv)
    os.environ["JUPYTER_CONFIG_DIR"] = user
    os.environ["JUPYTER_CONFIG_PATH"] = extra
    os.environ.pop("JUPYTER_NO_CONFIG", None)
    os.environ["HOME"] = d
    os.chdir(dirs[1])
    res = {}
    try:
        from jupyter_core.paths import jupyter_config_path
        order = [os.path.realpath(p) for p in jupyter_config_path()]
        two = sorted((extra, user), key=lambda p: order.index(os.path.realpath(p)))
        dirs[2], dirs[3] = two            # priority among the non-cwd directories is jupyter's own
        usernum = 2 if dirs[2] == user else 3
        if k % 3 == 0 and not any(s["dir"] == usernum for s in case["sites"]):
            # the working directory is itself the (otherwise unused) user-level config directory: its file is on the
            # search path twice and still takes precedence as the working-directory file
            os.environ["JUPYTER_CONFIG_DIR"] = dirs[1]
        sections, default, values, flagname = OPTIONS[opt]
        files = {}
        valmap = {}
        for j, s in enumerate(case["sites"]):
            if opt == "Ignore":
                val = {IGN_PATH[p]: ["k%d" % j] for p in s["paths"]}
            else:
                val = values[j]
            valmap[(s["dir"], s["section"])] = val
            files.setdefault(s["dir"], {}).setdefault(s["section"], {})[opt] = val
        for dnum, content in files.items():
            with io.open(os.path.join(dirs[dnum], "nbdime_config.json"), "w", encoding="utf8") as f:
                json.dump(content, f)
        # expected
        if opt == "Ignore":
            exp = {}
            for p, w in case["pathwinners"].items():
                if w["dir"]:
                    exp[IGN_PATH[p]] = valmap[(w["dir"], w["section"])][IGN_PATH[p]]
            use_flag = False
        else:
            use_flag = case["flag"]
            if use_flag:
                exp = FLAG_VALUE[opt]
            elif case["winner"] == "site":
                exp = valmap[(case["wdir"], case["wsection"])]
            else:
                exp = port_default(ep) if opt == "port" else default
        res["expected"] = exp
        import nbdime.config
        try:
            cfg = nbdime.config.build_config(ep)
            res["config"] = cfg.get(opt, default if opt != "port" else None)
        except Exception as e:  # noqa
            res["config_raised"] = "%s: %s" % (type(e).__name__, e)
        if "config_raised" not in res:
            # option resolution is a function of the configuration: listing the configuration (what --config does:
            # build_config(ep, True)) changes neither this entry point's values nor another entry point's
            try:
                others = [e for e in ("nbshow", "nbmerge", "nbdiff-web", "nbdiff") if e != ep][:2]
                before = {e: json.dumps(nbdime.config.build_config(e), sort_keys=True, default=str) for e in others}
                nbdime.config.build_config(ep, True)
                again = nbdime.config.build_config(ep).get(opt, default if opt != "port" else None)
                after = {e: json.dumps(nbdime.config.build_config(e), sort_keys=True, default=str) for e in others}
                if again != res["config"]:
                    res["listing_changed"] = "%s of %s: %r -> %r" % (opt, ep, res["config"], again)
                for e in others:
                    if before[e] != after[e]:
                        res["listing_changed"] = "config of %s: %s -> %s" % (e, before[e][:300], after[e][:300])
            except Exception as e:  # noqa
                res["listing_raised"] = "%s: %s" % (type(e).__name__, e)
        if opt != "Ignore" and ep != "extension":
            flags = [flagname, str(FLAG_VALUE[opt])] if use_flag else []
            try:
                ns = parse(ep, flags)
                res["parsed"] = getattr(ns, opt, "<missing>") if ns is not None else "<no parser>"
                if ep in DISPATCH and (k % 2 == 0 or ep == "server"):
                    ns2 = parse_other_invocation(ep, flags)
                    res["parsed_other"] = getattr(ns2, opt, "<missing>") if ns2 is not None else "<no parser>"
            except SystemExit as e:
                res["parse_raised"] = "SystemExit %s" % (e.code,)
            except Exception as e:  # noqa
                res["parse_raised"] = "%s: %s" % (type(e).__name__, e)
    finally:
        os.chdir(old_cwd)
        os.environ.clear()
        os.environ.update(old_env)
        sys.argv = old_argv
        shutil.rmtree(d, True)
        try:
            import nbdime.diffing.notebooks as nbd
            nbd.reset_notebook_differ()
        except Exception:
            pass
    return res


def run():
    chk = Check("C19")
    common.use_stubs()
    import nbdime.nbdiffapp, nbdime.nbmergeapp, nbdime.nbshowapp  # noqa
    import nbdime.webapp.nbdiffweb, nbdime.webapp.nbmergeweb, nbdime.webapp.nbdimeserver  # noqa
    import nbdime.vcs.git.diffdriver, nbdime.vcs.git.mergedriver, nbdime.vcs.git.difftool, nbdime.vcs.git.mergetool  # noqa
    import logging
    maxsites = 2 if chk.quick else 3
    root = tlc.subdir("c19")
    tasks, meta = [], []
    rr = common.rng("c19")
    for epkey in sorted(EPS):
        r = tlc.run("ConfigRes", CFG % (epkey, maxsites), workers=1, timeout=1200, name="ConfigRes-" + epkey, xmx="4g")
        if r.invariant_violated or r.error:
            raise tlc.TLCError("ConfigRes %s: %s\n%s" % (epkey, r.error, r.out[-1200:]))
        chk.add_model(r, "ConfigRes EP=%s MaxSites=%d" % (epkey, maxsites))
        seen, cases = set(), []
        for c in r.json_lines("CASE"):
            key = json.dumps(c, sort_keys=True)
            if key not in seen:
                seen.add(key)
                cases.append(c)
        for opt, (sections, default, values, flagname) in OPTIONS.items():
            usable = []
            for c in cases:
                secs = [s["section"] for s in c["sites"]]
                if not all(s in sections for s in secs):
                    continue
                if opt == "Ignore":
                    if c["flag"]:
                        continue
                elif any(len(s["paths"]) != 1 or s["paths"][0] != "P1" for s in c["sites"]):
                    continue            # the path choice only matters for Ignore
                if opt == "log_level" and not any(True for _ in [0]):
                    continue
                usable.append(c)
            if opt != "log_level" and not any(s in sections for s in _chain_sections(cases)):
                continue
            if chk.quick and len(usable) > 60:
                rr.shuffle(usable)
                usable = usable[:60]
            for c in usable:
                tasks.append((len(tasks), epkey, opt, c, root))
                meta.append((epkey, opt, c))
    logging.disable(logging.CRITICAL)
    ctx = multiprocessing.get_context("fork")
    with ctx.Pool(common.NCPU) as pool:
        results = pool.map(evaluate, tasks, chunksize=8)
    logging.disable(logging.NOTSET)
    for (epkey, opt, c), res in zip(meta, results):
        ep = EPS[epkey]
        desc = {"entry_point": ep, "option": opt, "sites": [[s["dir"], s["section"]] + ([s["paths"]] if opt == "Ignore" else [])
                                                             for s in c["sites"]], "flag": c["flag"]}
        chk.count(desc, nontrivial=bool(c["sites"]) or c["flag"])
        exp = res.get("expected")
        info = dict(desc, expected=exp, observed={k: v for k, v in res.items() if k != "expected"},
                    model_winner=[c["winner"], c["wdir"], c["wsection"]])
        kind = "global-section" if any(s["section"] == "Global" for s in c["sites"]) else "sections"
        if "listing_changed" in res or "listing_raised" in res:
            chk.violation("build_config:listing-changes-resolution" if "listing_changed" in res else "build_config-listing-raised",
                          "build_config(%s, include_none=True) (the --config listing) %s"
                          % (ep, res.get("listing_changed") or res.get("listing_raised")), info)
        if "config_raised" in res:
            chk.violation("build_config-raised:%s" % opt, "build_config(%s) raised %s" % (ep, res["config_raised"]), info)
            continue
        if not c["flag"] and opt != "Ignore" and res.get("config") != exp and not (opt == "port" and not c["sites"] and res.get("config") == port_default(ep)):
            chk.violation("build_config:%s:%s:%s" % (opt, kind, c["winner"]),
                          "build_config(%r)[%r] = %r but the documented rule gives %r" % (ep, opt, res.get("config"), exp), info)
            continue
        if opt == "Ignore" and (res.get("config") or {}) != exp:
            chk.violation("build_config:Ignore:pathwise-merge",
                          "effective Ignore mapping %r differs from the path-wise merge %r" % (res.get("config"), exp), info)
            continue
        if "parse_raised" in res:
            chk.violation("parser-raised:%s:%s" % (ep, opt), "the entry point's parser failed: %s" % res["parse_raised"], info)
            continue
        if "parsed" in res and res["parsed"] != exp and not (opt == "port" and not c["sites"] and not c["flag"]):
            chk.violation("parser:%s:%s:%s" % (opt, kind, c["winner"]),
                          "%s parser gives %s = %r but the documented rule gives %r" % (ep, opt, res["parsed"], exp), info)
        if "parsed_other" in res and res["parsed_other"] != exp and not (opt == "port" and not c["sites"] and not c["flag"]):
            chk.violation("parser-other-invocation:%s:%s:%s" % (opt, kind, c["winner"]),
                          "%s run through the nbdime dispatcher (or, the server, as a module) gives %s = %r but the documented rule "
                          "gives %r" % (ep, opt, res["parsed_other"], exp), info)
    chk.cov["traces_validated_against_impl"] = len(tasks)
    chk.notes["cases_materialised"] = len(tasks)
    chk.sample({"entry_point": EPS[meta[0][0]], "option": meta[0][1], "case": meta[0][2]})
    chk.sample({"entry_point": EPS[meta[-1][0]], "option": meta[-1][1], "case": meta[-1][2]})
    chk.cov["rule"] = ("for each of the 11 entry points: all assignments of an option to <= %d (directory, section) sites x flag given or "
                       "not (TLC-enumerated; per option only sections that define it; 60 per (entry point, option) sampled in quick), "
                       "options merge_strategy, input_strategy, port, ip, log_level, Ignore; distinct by case" % maxsites)
    chk.assumptions += ["section lists per entry point are taken from docs/source/config.rst, not from the class hierarchy",
                        "priority among the two non-cwd directories (JUPYTER_CONFIG_PATH entry, JUPYTER_CONFIG_DIR) is jupyter_core's",
                        "for the git tools whose parser is built inside main(), the parsed namespace is captured by replacing the "
                        "function main() hands it to",
                        "nbdiff, nbmerge, nbshow, nbdiff-web, nbmerge-web and the server are also parsed the other way they can be "
                        "started (`nbdime <command>`; `python -m nbdime.webapp.nbdimeserver`): the same resolution is expected"]
    return chk.finish()


def _chain_sections(cases):
    out = set()
    for c in cases:
        for s in c["sites"]:
            out.add(s["section"])
    return out


if __name__ == "__main__":
    common.main(run)
