"""Trusted encoding of Python/JSON values into the tagged universe of spec/JsonDoc.tla.

Only JSON objects, arrays, strings and small ints are written, because TLC's
Json module has no floats/null and TLC integers are 32 bit:
  ints   -> decimal text, floats -> repr text, strings -> arrays of code points.
Anything that is not a JSON value (tuple, NaN, non-string key, arbitrary object)
becomes a value tagged "x" so that the specification can say so (PlainJSON).
"""
import json
import math

INT_MAX = 2**31 - 1


def enc(x):
    """Encode a JSON-like Python value."""
    if isinstance(x, dict):
        m = {}
        for k, v in x.items():
            if not isinstance(k, str):
                return {"t": "x", "why": "nonstr-key:" + type(k).__name__}
            m[k] = enc(v)
        return {"t": "o", "m": m}
    if isinstance(x, list):
        return {"t": "l", "e": [enc(v) for v in x]}
    if isinstance(x, str):
        return {"t": "s", "c": [ord(ch) for ch in x]}
    if isinstance(x, bool):
        return {"t": "b", "v": "true" if x else "false"}
    if isinstance(x, int):
        return {"t": "i", "v": str(x)}
    if isinstance(x, float):
        if math.isnan(x) or math.isinf(x):
            return {"t": "x", "why": "nonfinite-float"}
        return {"t": "f", "v": repr(x)}
    if x is None:
        return {"t": "n"}
    return {"t": "x", "why": type(x).__name__}


def dec(v):
    """Inverse of enc for plain JSON (used for values printed by TLC via ToJson)."""
    t = v["t"]
    if t == "o":
        m = v.get("m", {})
        if isinstance(m, list):      # TLC prints the empty function as []
            assert not m
            m = {}
        return {k: dec(x) for k, x in m.items()}
    if t == "l":
        return [dec(x) for x in v["e"]]
    if t == "s":
        return "".join(chr(c) for c in v["c"])
    if t == "b":
        return v["v"] == "true"
    if t == "i":
        return int(v["v"])
    if t == "f":
        return float(v["v"])
    if t == "n":
        return None
    raise ValueError("cannot decode %r" % (v,))


def _clamp(i):
    return max(-INT_MAX, min(INT_MAX, i))


def enc_key(k):
    if isinstance(k, bool):
        return "x", 0
    if isinstance(k, str):
        return "s", k
    if isinstance(k, int):
        return "i", _clamp(k)
    return "x", 0


def enc_entry(e):
    if not isinstance(e, dict):
        return {"op": "?", "kt": "x", "key": 0, "x_notdict": enc(e)}
    out = {}
    for k, v in e.items():
        if k == "op":
            out["op"] = v if isinstance(v, str) else "?"
        elif k == "key":
            out["kt"], out["key"] = enc_key(v)
        elif k == "value":
            out["value"] = enc(v)
        elif k == "valuelist":
            out["valuelist"] = enc(v)
        elif k == "length":
            if isinstance(v, int) and not isinstance(v, bool):
                out["length"] = _clamp(v)
            else:
                out["length"] = 0
                out["x_length"] = enc(v)
        elif k == "diff":
            if isinstance(v, list):
                out["diff"] = enc_diff(v)
            else:
                out["diff"] = []
                out["x_diff"] = enc(v)
        else:
            out["x_" + str(k)] = enc(v)
    if "kt" not in out:
        out["kt"] = "x"
    return out


def enc_diff(d):
    return [enc_entry(e) for e in d]


def dec_entry(e):
    """Encoded entry (as printed by TLC) -> nbdime-style plain dict."""
    out = {"op": e["op"], "key": e["key"]}
    if "value" in e:
        out["value"] = dec(e["value"])
    if "valuelist" in e:
        out["valuelist"] = dec(e["valuelist"])
    if "length" in e:
        out["length"] = e["length"]
    if "diff" in e:
        out["diff"] = dec_diff(e["diff"])
    return out


def dec_diff(d):
    return [dec_entry(e) for e in d]


def enc_path(p):
    out = []
    for k in p:
        if isinstance(k, str):
            out.append({"k": "s", "s": k, "i": 0})
        elif isinstance(k, int) and not isinstance(k, bool):
            out.append({"k": "i", "s": "", "i": _clamp(k)})
        else:
            out.append({"k": "x", "s": "", "i": 0})
    return out


def enc_text(s):
    return [ord(ch) for ch in s]


def canon(x):
    """Canonical JSON text (C02 'serialises to exactly the same JSON')."""
    return json.dumps(x, sort_keys=True, ensure_ascii=True, allow_nan=False)


DECISION_FIELDS = ("local_diff", "remote_diff", "conflict", "action", "custom_diff", "common_path", "similar_insert")


def _enc_optdiff(v):
    if v is None:
        return [], True, True
    if isinstance(v, (list, tuple)):
        return enc_diff(list(v)), False, True
    return [], False, False


def enc_decision(dec):
    """Merge decision (dict-like) -> encoded record of spec/MergeFormat.tla."""
    out = {}
    path = dec.get("common_path", ())
    path_ok = isinstance(path, (list, tuple)) and all(
        (isinstance(k, str) or (isinstance(k, int) and not isinstance(k, bool))) for k in path)
    out["common_path"] = enc_path(path if isinstance(path, (list, tuple)) else ())
    out["path_ok"] = bool(path_ok)
    c = dec.get("conflict", None)
    out["conflict_ok"] = isinstance(c, bool)
    out["conflict"] = bool(c)
    a = dec.get("action", None)
    out["action"] = a if isinstance(a, str) else "?"
    ok = True
    for src, dst in (("local_diff", "local"), ("remote_diff", "remote"), ("custom_diff", "custom"),
                     ("similar_insert", "similar")):
        d, isnull, good = _enc_optdiff(dec.get(src, None))
        name = dst + "_diff" if dst != "similar" else "similar"
        out[name] = d
        out[dst + "_null"] = isnull
        ok = ok and good
    extra = [str(k) for k in dec.keys() if k not in DECISION_FIELDS]
    if not ok:
        extra.append("<non-list diff>")
    out["extra"] = extra
    return out


def enc_decisions(ds):
    return [enc_decision(d) for d in ds]


def enc_js(x):
    """Like enc, but numbers as JavaScript sees them: an integral float and the integer are one value."""
    if isinstance(x, dict):
        return {"t": "o", "m": {str(k): enc_js(v) for k, v in x.items()}}
    if isinstance(x, (list, tuple)):
        return {"t": "l", "e": [enc_js(v) for v in x]}
    if isinstance(x, float) and not isinstance(x, bool) and x == x and x not in (float("inf"), float("-inf")) and x.is_integer():
        return {"t": "i", "v": str(int(x))}
    return enc(x)
