"""Shared plumbing: importing nbdime from /repo's working tree, trace validation
through TLC in parallel batches, known findings, evidence files, exit protocol."""
import hashlib
import json
import os
import random
import sys
import time
import traceback
from concurrent.futures import ThreadPoolExecutor

HERE = os.path.dirname(os.path.abspath(__file__))
VERIF = os.path.dirname(HERE)
REPO = os.environ.get("VERIF_REPO", "/repo")
GUARD = "NBDIME_VERIF"

os.environ.setdefault("PYTHONHASHSEED", "0")
os.environ[GUARD] = "1"
if REPO not in sys.path:
    sys.path.insert(0, REPO)
STUBS = os.path.join(HERE, "stubs")

from . import tlc  # noqa: E402

NCPU = int(os.environ.get("VERIF_JOBS", "0")) or min(16, os.cpu_count() or 4)


def seed():
    try:
        return int(os.environ.get("VERIF_SEED", "0"))
    except ValueError:
        return 0


def rng(salt=""):
    return random.Random("%s/%s" % (seed(), salt))


def use_stubs():
    """jinja2 / jupyter_server are not installed in this image: minimal stand-ins."""
    if STUBS not in sys.path:
        sys.path.append(STUBS)


# --------------------------------------------------------------------------
# trace validation
# --------------------------------------------------------------------------
def write_trace(path, events):
    with open(path, "w") as f:
        for ev in events:
            f.write(ev if isinstance(ev, str) else json.dumps(ev, separators=(",", ":")))
            f.write("\n")


class Validation(object):
    def __init__(self):
        self.fails = {}       # tid -> [clause...]
        self.drift = {}       # tid -> [name...]
        self.info = []        # other printed tuples
        self.events = 0
        self.states = 0
        self.transitions = 0
        self.wall = 0.0
        self.runs = 0

    def add_fail(self, tid, clause):
        self.fails.setdefault(tid, []).append(clause)


def validate(module, cfg, events, batch=250, name=None, timeout=1800, jobs=None, xmx="3g"):
    """Validate events (list of dicts with 'tid') against spec/<module>.tla.

    Every event must be consumed (POSTCONDITION Accepted); every false clause is
    reported as <<"FAIL", tid, clause>>.  Raises tlc.TLCError on machinery failure."""
    v = Validation()
    v.events = len(events)
    if not events:
        return v
    work = tlc.subdir("traces")
    batches = [events[k:k + batch] for k in range(0, len(events), batch)]
    stamp = "%d-%d" % (os.getpid(), int(time.time() * 1000) % 10**9)

    def one(ix):
        p = os.path.join(work, "%s-%s-%d.ndjson" % (name or module, stamp, ix))
        write_trace(p, batches[ix])
        try:
            r = tlc.run(module, cfg, env={"TRACE_FILE": p}, workers=1, timeout=timeout,
                        name="%s-%d" % (name or module, ix), xmx=xmx)
        finally:
            try:
                os.unlink(p)
            except OSError:
                pass
        if r.postcondition_failed or r.distinct != len(batches[ix]) + 1:
            raise tlc.TLCError("trace batch %d of %s not fully consumed (%d states for %d events)\n%s"
                               % (ix, module, r.distinct, len(batches[ix]), "\n".join(r.out.splitlines()[-30:])))
        return r

    t0 = time.time()
    with ThreadPoolExecutor(max_workers=jobs or NCPU) as ex:
        results = list(ex.map(one, range(len(batches))))
    v.wall = time.time() - t0
    for r in results:
        v.runs += 1
        v.states += r.distinct
        v.transitions += max(r.generated - 1, 0)
        for t in r.tuples("FAIL"):
            v.add_fail(t[1] if len(t) == 3 else tuple(t[1:-1]), t[-1])
        for t in r.tuples("DRIFT"):
            v.drift.setdefault(t[1], []).append(t[2])
        for t in r.tuples("INFO"):
            v.info.append(t[1:])
    return v


TRACE_CFG = """SPECIFICATION Spec
CONSTANT LineSeps <- %s
POSTCONDITION Accepted
CHECK_DEADLOCK FALSE
"""


def diff_trace_cfg(seps="PyLineSeps"):
    return TRACE_CFG % seps


# --------------------------------------------------------------------------
# known findings
# --------------------------------------------------------------------------
def load_known():
    p = os.path.join(VERIF, "known_findings.json")
    if not os.path.exists(p):
        return {"findings": [], "fixed": []}
    with open(p) as f:
        return json.load(f)


def known_for(prop):
    return [k for k in load_known().get("findings", []) if k["property"] == prop]


# --------------------------------------------------------------------------
# evidence + exit protocol
# --------------------------------------------------------------------------
class Check(object):
    """One run of one property check."""

    def __init__(self, prop, level="model_checking"):
        self.prop = prop
        self.level = level
        self.tier = os.environ.get("VERIF_TIER", "quick")
        if self.tier not in ("quick", "thorough"):
            self.tier = "quick"
        self.t0 = time.time()
        self.cov = {"samples": [], "states": 0, "transitions": 0,
                    "traces_validated_against_impl": 0, "evaluations": 0,
                    "distinct_nontrivial": 0, "rule": ""}
        self.assumptions = []
        self.violations = []     # (signature, description, replay_obj)
        self.known_hits = {}     # finding id -> count
        self._distinct = set()
        self.notes = {}

    @property
    def quick(self):
        return self.tier == "quick"

    # ---- coverage accounting ------------------------------------------
    def sample(self, obj, limit=4):
        if len(self.cov["samples"]) < limit:
            s = json.dumps(obj, default=str)
            if len(s) > 3000:
                s = s[:3000] + "...(truncated)"
                self.cov["samples"].append(s)
            else:
                self.cov["samples"].append(json.loads(s))

    def count(self, key_obj=None, nontrivial=True, n=1):
        self.cov["evaluations"] += n
        if nontrivial and key_obj is not None:
            h = hashlib.sha1(json.dumps(key_obj, sort_keys=True, default=str).encode()).hexdigest()
            self._distinct.add(h)

    def add_model(self, r, label=None):
        """Account a TLC model-checking run (states/transitions of the spec itself)."""
        self.cov["states"] += r.distinct
        self.cov["transitions"] += max(r.generated - 1, 0)
        if label:
            self.notes.setdefault("tlc_runs", []).append(
                {"run": label, "distinct_states": r.distinct, "states_generated": r.generated,
                 "depth": r.depth, "wall_s": round(r.wall, 1)})

    def add_validation(self, v, label=None):
        self.cov["traces_validated_against_impl"] += v.events
        self.notes.setdefault("trace_validation", []).append(
            {"run": label, "events": v.events, "tlc_states": v.states, "jvm_runs": v.runs,
             "wall_s": round(v.wall, 1), "events_with_failed_clause": len(v.fails)})

    # ---- verdicts ----------------------------------------------------
    def violation(self, signature, description, replay_obj):
        """Report a property violation unless it matches a committed known finding."""
        for k in known_for(self.prop):
            if k["signature"] == signature:
                self.known_hits[k["id"]] = self.known_hits.get(k["id"], 0) + 1
                return False
        self.violations.append((signature, description, replay_obj))
        return True

    def finish(self):
        self.cov["distinct_nontrivial"] = len(self._distinct)
        wall = time.time() - self.t0
        evdir = os.environ.get("VERIF_EVIDENCE_DIR") or os.path.join(VERIF, "evidence")
        os.makedirs(evdir, exist_ok=True)
        os.makedirs(os.path.join(VERIF, "replays"), exist_ok=True)
        for k in known_for(self.prop):
            if self.known_hits.get(k["id"]):
                print("KNOWN-FINDING: property=%s %s [%s; %d occurrence(s) this run]"
                      % (self.prop, k["what"], k["id"], self.known_hits[k["id"]]))
        seen = set()
        nviol = 0
        for sig, desc, obj in self.violations:
            if sig in seen:
                continue
            seen.add(sig)
            nviol += 1
            h = hashlib.sha1(json.dumps(sig, sort_keys=True, default=str).encode()).hexdigest()[:10]
            path = os.path.join(VERIF, "replays", "%s-%s.json" % (self.prop, h))
            with open(path, "w") as f:
                json.dump({"property": self.prop, "signature": sig, "description": desc,
                           "case": obj}, f, indent=1, default=str)
            print("VIOLATION property=%s replay=%s" % (self.prop, path))
            print("  " + desc[:600])
        cov = dict(self.cov)
        cov.update(self.notes)
        cov["known_findings_hit"] = self.known_hits
        if self.level == "model_checking" and cov["states"] == 0:
            # no spec state space explored in this run: fall back to generic keys
            for k in ("states", "transitions", "traces_validated_against_impl"):
                cov.pop(k, None)
        ev = {"property_id": self.prop, "tier": self.tier, "seed": seed(), "level": self.level,
              "coverage": cov, "assumptions": self.assumptions, "wall_s": round(wall, 2),
              "violations": nviol}
        with open(os.path.join(evdir, "%s.json" % self.prop), "w") as f:
            json.dump(ev, f, indent=1, default=str)
        print("%s tier=%s seed=%d evaluations=%d distinct=%d states=%d traces=%d violations=%d known=%d wall=%.1fs"
              % (self.prop, self.tier, seed(), cov.get("evaluations", 0), cov.get("distinct_nontrivial", 0),
                 cov.get("states", 0), cov.get("traces_validated_against_impl", 0), nviol,
                 sum(self.known_hits.values()), wall))
        return 1 if nviol else 0


def main(fn):
    """Run a check function returning an exit status; exit 2 on machinery failure."""
    try:
        rc = fn()
    except tlc.TLCError as e:
        print("MACHINERY-FAILURE (TLC): %s" % e)
        rc = 2
    except Exception:
        traceback.print_exc()
        print("MACHINERY-FAILURE")
        rc = 2
    sys.stdout.flush()
    os._exit(rc) if False else sys.exit(rc)


def exc_info(e):
    """(type name, innermost nbdime frame 'file:function') of an exception."""
    tb = e.__traceback__
    where = "?"
    while tb is not None:
        fn = tb.tb_frame.f_code.co_filename
        if "nbdime" in fn and "/tests/" not in fn:
            where = "%s:%s" % (os.path.relpath(fn, REPO) if fn.startswith(REPO) else os.path.basename(fn),
                               tb.tb_frame.f_code.co_name)
        tb = tb.tb_next
    return type(e).__name__, where
