"""C08 - merge command and git driver: exit status, output file, behaviour on failure.

spec : MergeCmd.tla - every step of main_merge is an action; Raise/Kill faults are independently enabled
       at every step boundary; TLC checks ExitZeroIffNoConflict, FinishedLeavesResult, FaultNeverSucceeds,
       EarlyFaultLeavesOutput on the whole state graph and prints every terminal state.
s->c : every scenario of the model (mode x input shape x conflict x fault step x kind x write index) is run as
       a real subprocess (harness/faultdriver.py wraps the names main_merge uses); the observed
       (exit class, output class) must be one the model's terminal states allow for that scenario, and a
       finished run's output must equal the library merge.
"""
import io
import re
import json
import os
import shutil
import subprocess
import sys
from concurrent.futures import ThreadPoolExecutor

import nbformat

from . import common, tlc, concretize, mergedrv
from .common import Check, REPO
from .diffdrv import to_plain

CFG = """SPECIFICATION Spec
CONSTANT Modes = {"out", "stdout", "decisions", "driver"}
CONSTANT Shapes = {"normal", "base_null", "empty_base", "local_null", "remote_null", "both_null"}
CONSTANT Kinds = {"IOError", "MemoryError", "Interrupt", "Kill"}
CONSTANT MaxWrites = 3
CONSTANT EMIT = TRUE
INVARIANT TypeOK
INVARIANT ExitZeroIffNoConflict
INVARIANT FinishedLeavesResult
INVARIANT FaultNeverSucceeds
INVARIANT EarlyFaultLeavesOutput
CONSTRAINT Emit
CHECK_DEADLOCK FALSE
"""
SENTINEL = b"ORIGINAL CONTENT OF THE OUTPUT LOCATION\n"
NULL = "/dev/null"


def model(chk):
    r = tlc.run("MergeCmd", CFG, workers=1, timeout=600, name="MergeCmd", coverage=True)
    if r.invariant_violated or r.error:
        raise tlc.TLCError("MergeCmd: %s\n%s" % (r.error, r.out[-2000:]))
    chk.add_model(r, "MergeCmd (4 modes x 6 shapes x conflict x 4 fault kinds at every step, <= 3 writes)")
    chk.notes["MergeCmd_action_coverage"] = {k: v[0] for k, v in r.coverage().items()}
    allowed = {}
    for t in r.json_lines("TERM"):
        f = t["fault"]
        key = (t["mode"], t["shape"], t["conf"], f["step"], f["kind"], f["k"] if f["step"] == "Write" else 0)
        allowed.setdefault(key, set()).add((t["exit"], t["out"]))
    return allowed


def make_notebooks():
    """a triple that leaves a conflict under the default strategy and one that merges cleanly"""
    base = {"minor": 5, "nbmd": 1, "cells": [
        {"cid": 1, "fam": 1, "kind": "code", "src": 0, "outs": 1, "md": 0, "ec": 1, "att": 0},
        {"cid": 2, "fam": 2, "kind": "markdown", "src": 0, "outs": 0, "md": 0, "ec": 0, "att": 1},
        {"cid": 3, "fam": 3, "kind": "code", "src": 0, "outs": 2, "md": 1, "ec": 2, "att": 0}]}

    def edit(cell, **kw):
        nb = json.loads(json.dumps(base))
        nb["cells"][cell].update(kw)
        return nb
    conflicting = (base, edit(0, src=1), edit(0, src=2))
    clean = (base, edit(0, src=1), edit(2, outs=5, ec=1))
    out = {"conflict": tuple(concretize.concrete(x) for x in conflicting),
           "clean": tuple(concretize.concrete(x) for x in clean)}
    # remote only changes the JSON kind of numbers (1 -> 1.0, true -> 1): merged == local under Python's ==
    b = concretize.concrete(base)
    b.metadata["counts"] = {"n": 1, "flag": True, "ratio": 2}
    rr = json.loads(json.dumps(b))
    rr["metadata"]["counts"] = {"n": 1.0, "flag": 1, "ratio": 2.0}
    out["numkind"] = (b, nbformat.from_dict(json.loads(json.dumps(b))), nbformat.from_dict(rr))
    # degenerate triples: nothing changed / only one side changed (the result equals one of the inputs)
    cb = concretize.concrete(base)
    out["same"] = (cb, concretize.concrete(base), concretize.concrete(base))
    out["remote_only"] = (cb, concretize.concrete(base), concretize.concrete(edit(1, src=2, att=2)))
    out["local_only"] = (cb, concretize.concrete(edit(2, src=1, outs=6)), concretize.concrete(base))
    # both sides edit the same two far-apart lines of one cell differently: two conflict regions in one source
    out["two_regions"] = (cb, concretize.concrete(edit(0, src=5)), concretize.concrete(edit(0, src=6)))
    # exactly 256 unresolved conflicts (a process exit status has 8 bits)
    def many(tag):
        return nbformat.from_dict({"nbformat": 4, "nbformat_minor": 5, "metadata": {}, "cells": [
            {"cell_type": "code", "id": "c%d" % i, "metadata": {}, "execution_count": None, "outputs": [],
             "source": "value_%d = %s\n" % (i, tag)} for i in range(256)]})
    out["conflicts256"] = (many("0"), many("'local'"), many("'remote'"))
    return out


class Scenario(object):
    def __init__(self, sid, mode, shape, triple, strategy, fault):
        self.sid, self.mode, self.shape, self.triple, self.strategy, self.fault = sid, mode, shape, triple, strategy, fault


def setup_files(work, sc, nbs):
    d = os.path.join(work, sc.sid)
    os.makedirs(d, exist_ok=True)
    b, l, r = nbs[sc.triple]
    paths = {}
    for tag, nb in (("base", b), ("local", l), ("remote", r)):
        p = os.path.join(d, tag + ".ipynb")
        with io.open(p, "w", encoding="utf8") as f:
            json.dump(nb, f)
        paths[tag] = p
    if sc.shape == "base_null":
        paths["base"] = NULL
    elif sc.shape == "empty_base":
        open(paths["base"], "w").close()
    elif sc.shape == "local_null":
        paths["local"] = NULL
    elif sc.shape == "remote_null":
        paths["remote"] = NULL
    elif sc.shape == "both_null":
        paths["local"] = paths["remote"] = NULL
    out = None
    if sc.mode in ("out", "decisions"):
        out = os.path.join(d, "merged.out")
        with open(out, "wb") as f:
            f.write(SENTINEL)
    elif sc.mode == "driver":
        out = paths["local"]
    strat = ["--merge-strategy", sc.strategy] if sc.strategy else []
    if sc.mode == "driver":
        argv = ["merge"] + strat + [paths["base"], paths["local"], paths["remote"], "7", "x.ipynb"]
        entry = "driver"
    else:
        argv = strat + ([paths["base"]] if True else []) + [paths["local"], paths["remote"]]
        if sc.mode == "out":
            argv += ["--out", out]
        elif sc.mode == "decisions":
            argv += ["--decisions", "--out", out]
        entry = "nbmerge"
    return d, paths, out, entry, argv


def library_result(paths, strategy):
    """what the library merge returns for the files as the command reads them"""
    from nbdime.utils import read_notebook
    from nbdime.merging.notebooks import merge_notebooks
    b = read_notebook(paths["base"], on_null="minimal", on_empty="minimal")
    l = read_notebook(paths["local"], on_null="minimal")
    r = read_notebook(paths["remote"], on_null="minimal")
    args = mergedrv.strategy_args(strategy or "inline")
    merged, decisions = merge_notebooks(b, l, r, args)
    return merged, decisions, any(d.conflict for d in decisions)


def _canon_nb(text):
    """type-aware canonical form of a notebook file's content (1 and 1.0 differ)"""
    from .encode import canon
    return canon(to_plain(nbformat.reads(text, as_version=4)))


def run_driver(d, spec, timeout=120):
    env = dict(os.environ)
    env.update({"JUPYTER_CONFIG_DIR": os.path.join(d, "cfg"), "JUPYTER_CONFIG_PATH": os.path.join(d, "cfg"),
                "HOME": d, "PYTHONHASHSEED": "0"})
    env.pop("NBDIME_VERIF", None)
    p = subprocess.run([sys.executable, "-m", "harness.faultdriver", json.dumps(spec)], cwd=common.VERIF,
                       stdout=subprocess.PIPE, stderr=subprocess.PIPE, env=env, timeout=timeout)
    return p


def read_bytes(p):
    try:
        with open(p, "rb") as f:
            return f.read()
    except (IOError, OSError):
        return None


ID_RE = re.compile(rb'("id": ")([^"]*)(")')


def ids_in(*blobs):
    keep = set()
    for b in blobs:
        if b:
            keep.update(m.group(2) for m in ID_RE.finditer(b))
    return keep


def norm_bytes(data, keep):
    """ids the merge generated (conflict marker cells get a random one per run) -> placeholders in order of appearance"""
    if data is None:
        return None
    seen = {}

    def sub(m):
        i = m.group(2)
        if i in keep:
            return m.group(0)
        if i not in seen:
            seen[i] = b"fresh-%d" % len(seen)
        return m.group(1) + seen[i] + m.group(3)
    return ID_RE.sub(sub, data)


def norm_obj(x, keep, dedupe_cells=False):
    """the same on a JSON value (dict keys visited in sorted order).  dedupe_cells: a cell id that repeats an
    earlier cell's id counts as generated (what nbformat's validate-on-write does to duplicate ids)."""
    seen = {}
    x = json.loads(json.dumps(x))
    if dedupe_cells and isinstance(x, dict):
        used = set()
        for n, c in enumerate(x.get("cells", ())):
            if "id" in c:
                if c["id"] in used:
                    c["id"] = "\0dup-%d" % n
                used.add(c["id"])
    kept = {k.decode("utf8", "replace") for k in keep}

    def walk(v):
        if isinstance(v, list):
            return [walk(e) for e in v]
        if isinstance(v, dict):
            out = {}
            for k in sorted(v):
                if k == "id" and isinstance(v[k], str) and v[k] not in kept:
                    out[k] = seen.setdefault(v[k], "fresh-%d" % len(seen))
                else:
                    out[k] = walk(v[k])
            return out
        return v
    return walk(x)


def same_as_library(text, lib_value, keep):
    """'equal' | 'dup-id' (equal once duplicate cell ids in the library result are renamed) | 'differs'"""
    from .encode import canon
    try:
        got = json.loads(text)
        if isinstance(got, dict):
            # the file stores multi-line strings as lists of lines; undo that without validating / repairing
            from nbformat.v4.rwbase import rejoin_lines, strip_transient
            got = to_plain(rejoin_lines(nbformat.from_dict(got)))
    except Exception:
        return "differs"
    lib_plain = to_plain(lib_value) if not isinstance(lib_value, list) else json.loads(json.dumps(lib_value))
    if canon(norm_obj(got, keep)) == canon(norm_obj(lib_plain, keep)):
        return "equal"
    if isinstance(lib_plain, dict) and canon(norm_obj(got, keep)) == canon(norm_obj(lib_plain, keep, dedupe_cells=True)):
        return "dup-id"
    return "differs"


def classify_out(before, after, reference):
    if after is None:
        return "orig" if before is None else "removed"
    if after == before:
        return "orig"
    if after == b"":
        return "trunc"
    if reference is not None and after == reference:
        return "complete"
    if reference is not None and reference.startswith(after):
        return "partial"
    return "other"


def exit_class(rc):
    return "zero" if rc == 0 else ("signal" if rc < 0 else "nonzero")


def run():
    chk = Check("C08")
    mergedrv.quiet_logging()
    allowed = model(chk)
    nbs = make_notebooks()
    work = tlc.subdir("c08")
    r = common.rng("c08")
    modes = ("out", "stdout", "decisions", "driver")
    shapes = ("normal", "base_null", "empty_base", "local_null", "remote_null", "both_null")
    kinds = ("IOError", "MemoryError", "Interrupt", "Kill")
    steps_for = {}
    for (m, s, c, st, kd, k) in allowed:
        if st != "none":
            steps_for.setdefault((m, s), set()).add((st, k))
    # ---- scenario list ----------------------------------------------------------------------
    base_cases = []
    for m in modes:
        for s in shapes:
            if m == "driver" and s not in ("normal", "empty_base"):
                continue
            for triple, strategy in (("conflict", None), ("clean", None), ("conflict", "use-local"),
                                     ("conflict", "use-remote"), ("clean", "use-base"), ("numkind", None),
                                     ("same", None), ("remote_only", None), ("local_only", None), ("two_regions", None),
                                     ("conflicts256", None)):
                if s == "both_null" and (triple, strategy) != ("clean", None):
                    continue
                base_cases.append((m, s, triple, strategy))
    scenarios = []
    n = 0
    for (m, s, triple, strategy) in base_cases:
        scenarios.append(Scenario("s%d" % n, m, s, triple, strategy, None))
        n += 1
        points = sorted(steps_for.get((m, s), ()))
        for j, (st, k) in enumerate(points):
            ks = kinds if not chk.quick else (kinds[(n + j) % 4], "Kill" if (n + j) % 3 == 0 else kinds[(n + j + 1) % 4])
            if triple in ("same", "remote_only", "local_only", "two_regions", "conflicts256"):
                ks = ()                      # fault-free runs only
            elif chk.quick and (strategy is not None or triple == "numkind"):
                ks = (kinds[(n + j) % 4],) if (n + j) % 4 == 0 else ()
            for kd in sorted(set(ks)):
                scenarios.append(Scenario("s%d" % n, m, s, triple, strategy, {"step": st, "kind": kd, "k": k}))
                n += 1
        # the same I/O fault delivered by the operating system (file size limit reached while the result is written)
        if m in ("out", "driver") and strategy is None and triple in ("conflict", "clean") and ("Write", 1) in points:
            scenarios.append(Scenario("s%d" % n, m, s, triple, strategy, {"step": "Write", "kind": "IOError", "k": 1, "os": True}))
            n += 1

    refs = {}

    def lib(paths, sc):
        if sc.shape == "both_null":
            return (None, None, False)
        try:
            return library_result(paths, sc.strategy)
        except Exception as e:  # noqa  the library itself fails on this input: C03's business
            return e

    def one(sc):
        d, paths, out, entry, argv = setup_files(work, sc, nbs)
        spec = {"repo": REPO, "entry": entry, "argv": argv, "out": out, "both_null": sc.shape == "both_null"}
        before = read_bytes(out) if out else None
        inputs = [read_bytes(q) for q in paths.values() if q != NULL]
        keep = ids_in(*inputs)
        libres = lib(paths, sc)           # before the run: the driver overwrites the local file
        p = run_driver(d, dict(spec, fault=sc.fault))
        after = read_bytes(out) if out else None
        res = {"rc": p.returncode, "before": before, "after": after, "lib": libres,
               "fired": sc.fault is None or b"FAULT-FIRED" in p.stderr, "stdout": p.stdout,
               "stderr": p.stderr[-400:].decode("utf8", "replace"), "paths": paths, "out": out, "keep": keep, "inputs": inputs}
        if sc.fault is None:
            refs[(sc.mode, sc.shape, sc.triple, sc.strategy)] = after
        else:
            res["reference"] = refs.get((sc.mode, sc.shape, sc.triple, sc.strategy))
        shutil.rmtree(d, True)
        return sc, res

    with ThreadPoolExecutor(max_workers=common.NCPU) as ex:
        outcomes = list(ex.map(one, [sc for sc in scenarios if sc.fault is None]))
        outcomes += list(ex.map(one, [sc for sc in scenarios if sc.fault is not None]))

    not_fired = 0
    for sc, res in outcomes:
        key_info = {"mode": sc.mode, "shape": sc.shape, "triple": sc.triple, "strategy": sc.strategy, "fault": sc.fault}
        if isinstance(res["lib"], Exception):
            chk.notes.setdefault("library_raised", []).append(str(key_info))
            continue
        merged, decisions, conf = res["lib"]
        ex_cls = exit_class(res["rc"])
        if sc.fault is None:
            chk.count(key_info, nontrivial=True)
            reference = res["after"]
            out_cls = classify_out(res["before"], res["after"], reference if ex_cls != "signal" else None)   # same bytes: no ids to normalise
            if out_cls == "complete" and sc.mode in ("out", "driver"):
                # the complete result must be well-formed JSON equal to the library merge
                same = same_as_library(res["after"].decode("utf8", "replace"), merged, res["keep"])
                if same != "equal":
                    chk.violation("output-differs-from-library-merge:duplicate-cell-id-renamed-on-write" if same == "dup-id"
                                  else "finished-output-differs-from-library-merge:%s" % sc.mode,
                                  "finished run left an output that is not the library merge result", key_info)
                    continue
            if sc.mode == "decisions" and out_cls == "complete":
                same = same_as_library(res["after"].decode("utf8", "replace"), list(decisions), res["keep"])
                if same != "equal":
                    chk.violation("finished-decisions-differ-from-library:%s" % sc.mode,
                                  "--decisions --out file differs from the library's decision list", key_info)
                    continue
            if sc.mode == "stdout" and ex_cls != "signal" and sc.shape != "both_null":
                same = same_as_library(res["stdout"].decode("utf8", "replace"), merged, res["keep"])
                if same != "equal":
                    chk.violation("output-differs-from-library-merge:duplicate-cell-id-renamed-on-write" if same == "dup-id"
                                  else "stdout-differs-from-library-merge",
                                  "notebook printed to stdout is not the library merge",
                                  key_info)
                    continue
            # an exit status of zero promises that no unresolved conflict remains: independent of the library's own
            # flags, a finished result that shows conflict markers / recorded conflicts must not come with status zero
            shown = res["after"] if sc.mode in ("out", "driver") else (res["stdout"] if sc.mode == "stdout" else None)
            if shown and ex_cls == "zero" and (b"<<<<<<<" in shown or b"nbdime-conflicts" in shown) \
                    and not any(b"<<<<<<<" in (read_b or b"") or b"nbdime-conflicts" in (read_b or b"") for read_b in res.get("inputs", ())):
                chk.violation("exit-zero-with-conflict-markers:%s" % sc.mode,
                              "exit status 0 although the merged notebook shows unresolved conflict markers", key_info)
                continue
            key = (sc.mode, sc.shape, conf, "none", "none", 0)
        else:
            if not res["fired"]:
                not_fired += 1
                continue
            chk.count(key_info, nontrivial=True)
            out_cls = classify_out(res["before"], norm_bytes(res["after"], res["keep"]) if res["after"] != res["before"] else res["after"],
                                   norm_bytes(res.get("reference"), res["keep"]))
            key = (sc.mode, sc.shape, conf, sc.fault["step"], sc.fault["kind"], sc.fault["k"] if sc.fault["step"] == "Write" else 0)
        ok = key in allowed and (ex_cls, out_cls) in allowed[key]
        if not ok:
            step = sc.fault["step"] if sc.fault else "none"
            kind = sc.fault["kind"] if sc.fault else "none"
            chk.violation("cmd:%s:%s:fault=%s/%s:observed=%s/%s" % (sc.mode, "conf" if conf else "noconf", step,
                                                                    "kill" if kind == "Kill" else ("raise" if kind != "none" else "none"),
                                                                    ex_cls, out_cls),
                          "observed (exit=%s, output=%s) is not a terminal state of MergeCmd for %s; allowed: %s; stderr: %s"
                          % (ex_cls, out_cls, key, sorted(allowed.get(key, ())), res["stderr"][-200:]),
                          dict(key_info, conf=conf, observed=[ex_cls, out_cls], allowed=sorted(allowed.get(key, ()))))
    chk.notes["scenarios_run"] = len(scenarios)
    chk.notes["faults_that_did_not_fire (step not reached in that scenario)"] = not_fired
    chk.cov["traces_validated_against_impl"] = len(scenarios) - not_fired
    chk.sample({"scenario": {"mode": scenarios[1].mode, "shape": scenarios[1].shape, "fault": scenarios[1].fault}})
    chk.sample({"scenario": {"mode": scenarios[-1].mode, "shape": scenarios[-1].shape, "fault": scenarios[-1].fault}})
    chk.cov["rule"] = ("scenarios = terminal behaviours of spec/MergeCmd.tla: mode x input shape x (conflicting / clean triple x strategy) x "
                       "fault (step, kind, write index); each run as a real subprocess; quick rotates fault kinds, thorough runs all; "
                       "distinct by scenario")
    chk.assumptions += ["faults are injected by wrapping the module-level names main_merge uses (read_notebook, diff_notebooks, "
                        "decide_merge_with_diff, apply_decisions, nbformat.writes, io.open of the output path and its write/close); "
                        "faults inside C extensions or inside a single write(2) are out of reach",
                        "output classes: orig / trunc (empty) / partial (proper prefix of the fault-free output) / complete / removed"]
    shutil.rmtree(work, True)
    return chk.finish()


if __name__ == "__main__":
    common.main(run)
