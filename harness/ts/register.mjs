import { register } from 'node:module';
register('./loader.mjs', import.meta.url);
