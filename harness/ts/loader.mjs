// ESM loader that lets Node >= 22.6 execute nbdime's TypeScript sources unmodified:
//  * strips types (node:module stripTypeScriptTypes, transform mode)
//  * resolves extension-less relative imports to .ts / index.ts
//  * rewrites `import {a, b} from 'x'` to a namespace import + destructuring, because type-only names
//    (interfaces) survive type stripping in mixed import lists but are not exported at run time
//  * maps the two packages the exercised modules need to tiny stand-ins (node_modules is empty here)
import { readFile } from 'node:fs/promises';
import { existsSync, statSync } from 'node:fs';
import { fileURLToPath, pathToFileURL } from 'node:url';
import { dirname, join, resolve as presolve } from 'node:path';
import { stripTypeScriptTypes } from 'node:module';

const here = dirname(fileURLToPath(import.meta.url));
const STUBS = {
  '@lumino/coreutils': pathToFileURL(join(here, 'stubs', 'lumino_coreutils.mjs')).href,
  'json-stable-stringify': pathToFileURL(join(here, 'stubs', 'json_stable_stringify.mjs')).href,
};

export async function resolve(specifier, context, nextResolve) {
  if (STUBS[specifier]) {
    return { url: STUBS[specifier], shortCircuit: true };
  }
  if ((specifier.startsWith('./') || specifier.startsWith('../')) && context.parentURL &&
      context.parentURL.startsWith('file:') && context.parentURL.endsWith('.ts')) {
    const base = presolve(dirname(fileURLToPath(context.parentURL)), specifier);
    for (const cand of [base + '.ts', join(base, 'index.ts'), base]) {
      if (existsSync(cand) && statSync(cand).isFile()) {
        return { url: pathToFileURL(cand).href, shortCircuit: true };
      }
    }
  }
  return nextResolve(specifier, context);
}

let counter = 0;
function rewriteImports(code) {
  // import * as stableStringify from 'json-stable-stringify'  (called as a function in the sources)
  code = code.replace(/import\s+\*\s+as\s+(\w+)\s+from\s+(['"])json-stable-stringify\2\s*;?/g,
                      "import $1 from 'json-stable-stringify';");
  return code.replace(/import\s*\{([^}]*)\}\s*from\s*(['"][^'"]+['"])\s*;?/g, (m, names, from) => {
    const ns = '__ns' + (counter++);
    const parts = names.split(',').map(s => s.trim()).filter(Boolean).map(s => {
      const mm = s.match(/^(\w+)\s+as\s+(\w+)$/);
      return mm ? `${mm[1]}: ${mm[2]}` : s;
    });
    return `import * as ${ns} from ${from}; const { ${parts.join(', ')} } = ${ns};`;
  });
}

export async function load(url, context, nextLoad) {
  if (url.startsWith('file:') && url.endsWith('.ts')) {
    const source = await readFile(fileURLToPath(url), 'utf8');
    let code = stripTypeScriptTypes(source, { mode: 'transform', sourceUrl: url });
    code = rewriteImports(code);
    return { format: 'module', source: code, shortCircuit: true };
  }
  return nextLoad(url, context);
}
