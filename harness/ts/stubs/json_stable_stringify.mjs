// stand-in for json-stable-stringify: deterministic JSON with sorted keys and optional indentation
export default function stableStringify(obj, opts) {
  const space = opts && opts.space !== undefined ? opts.space : '';
  const indent = typeof space === 'number' ? ' '.repeat(space) : space;
  function ser(v, level) {
    if (v === undefined) { return undefined; }
    if (v === null || typeof v !== 'object') { return JSON.stringify(v); }
    const pad = indent ? '\n' + indent.repeat(level + 1) : '';
    const end = indent ? '\n' + indent.repeat(level) : '';
    if (Array.isArray(v)) {
      if (v.length === 0) { return '[]'; }
      return '[' + v.map(x => pad + (ser(x, level + 1) ?? 'null')).join(',') + end + ']';
    }
    const keys = Object.keys(v).sort();
    const items = [];
    for (const k of keys) {
      const s = ser(v[k], level + 1);
      if (s !== undefined) { items.push(pad + JSON.stringify(k) + (indent ? ': ' : ':') + s); }
    }
    if (items.length === 0) { return '{}'; }
    return '{' + items.join(',') + end + '}';
  }
  return ser(obj, 0);
}
