// stand-in for the parts of @lumino/coreutils the exercised modules use
function deepCopy(v) {
  if (v === null || typeof v !== 'object') { return v; }
  if (Array.isArray(v)) { return v.map(deepCopy); }
  const out = {};
  for (const k of Object.keys(v)) { if (v[k] !== undefined) { out[k] = deepCopy(v[k]); } }
  return out;
}
function deepEqual(a, b) {
  if (a === b) { return true; }
  if (a === null || b === null || typeof a !== 'object' || typeof b !== 'object') { return false; }
  if (Array.isArray(a) !== Array.isArray(b)) { return false; }
  if (Array.isArray(a)) {
    return a.length === b.length && a.every((x, i) => deepEqual(x, b[i]));
  }
  const ka = Object.keys(a), kb = Object.keys(b);
  return ka.length === kb.length && ka.every(k => Object.prototype.hasOwnProperty.call(b, k) && deepEqual(a[k], b[k]));
}
export const JSONExt = {
  deepCopy, deepEqual,
  isPrimitive: v => v === null || typeof v !== 'object',
  isArray: v => Array.isArray(v),
  isObject: v => v !== null && typeof v === 'object' && !Array.isArray(v),
  emptyObject: Object.freeze({}), emptyArray: Object.freeze([]),
};
export default { JSONExt };
