// usage: node --import ./register.mjs run.mjs <repo> <jobs.ndjson> <results.ndjson>
// job: {"id":..., "kind":"patch", "base":..., "diff":[...]} | {"kind":"decisions","base":...,"decisions":[...]}
import { readFileSync, writeFileSync } from 'node:fs';
import { join } from 'node:path';
import { pathToFileURL } from 'node:url';
const [repo, jobsFile, outFile] = process.argv.slice(2);
const src = join(repo, 'packages', 'nbdime', 'src');
const patchMod = await import(pathToFileURL(join(src, 'patch', 'index.ts')).href);
const decMod = await import(pathToFileURL(join(src, 'merge', 'decisions.ts')).href);
const lines = readFileSync(jobsFile, 'utf8').split('\n').filter(l => l.length > 0);
const out = [];
for (const line of lines) {
  const job = JSON.parse(line);
  const res = { id: job.id };
  try {
    if (job.kind === 'patch') {
      res.result = patchMod.patch(job.base, job.diff);
      if (job.twice) { res.result2 = patchMod.patch(job.base, job.diff); }
    } else {
      const decs = job.decisions.map(d => new decMod.MergeDecision(d));
      res.result = decMod.applyDecisions(job.base, decs);
      if (job.twice) { res.result2 = decMod.applyDecisions(job.base, decs); }
    }
  } catch (e) {
    res.error = String(e && e.message ? e.message : e).slice(0, 300);
    res.etype = e && e.constructor ? e.constructor.name : 'Error';
  }
  out.push(JSON.stringify(res));
}
writeFileSync(outFile, out.join('\n') + '\n');
