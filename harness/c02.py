"""C02 - generic JSON diff/patch round trip, including value types.

spec  : DiffModel.tla (bounded universe, all canonical well-formed diffs, invariants)
        DiffTrace.tla / DiffContract.tla (contract clauses on every recorded diff call)
s->c  : every TLC-generated (a, d, r = Patch(a, d)) is replayed into nbdime.patch
c->s  : nbdime.diff on every same-kind pair of the TLC-enumerated universe (exhaustive)
        and on random deeper pairs; TLC evaluates every clause on every event.
"""
import itertools
from concurrent.futures import ThreadPoolExecutor

from . import common, tlc, genjson
from .common import Check
from .diffdrv import diff_event, to_plain
from .encode import dec, dec_diff, enc

MODEL_CFG = """SPECIFICATION Spec
CONSTANT LineSeps <- PyLineSeps
CONSTANT MaxLen = %d
CONSTANT Universe = "%s"
CONSTANT EMIT = TRUE
INVARIANT GenWellFormed
INVARIANT PatchTotal
INVARIANT LengthLaw
INVARIANT FlattenLemma
INVARIANT ContractSat
INVARIANT EmptyIsIdentity
CONSTRAINT Emit
CHECK_DEADLOCK FALSE
"""

UNIVERSES = {
    "quick": [("lists", 2), ("zeros", 2), ("nested", 1), ("objects", 2), ("strings", 1)],
    "thorough": [("lists", 2), ("lists3", 3), ("zeros", 3), ("nested", 1), ("objects", 2), ("strings", 2)],
}

DOCS_CFG = MODEL_CFG.replace("CONSTRAINT Emit\n", "CONSTRAINT Emit\nCONSTRAINT DocsOnly\n")


def universe_docs(chk, universe, maxlen):
    """TLC enumerates the documents of a universe (no diffs chosen): the raw material of the pair sweeps."""
    r = tlc.run("DiffModel", DOCS_CFG % (maxlen, universe), workers=1, timeout=1200, name="DiffModel-docs-%s" % universe, xmx="4g")
    if r.invariant_violated or r.error:
        raise tlc.TLCError("DiffModel (documents of %s): %s" % (universe, (r.error or "")[:500]))
    chk.add_model(r, "DiffModel %s MaxLen=%d, documents only" % (universe, maxlen))
    return [dec(x) for x in r.json_lines("DOC")]


STR_TOKENS = ("a", "b", "\n", "\r", "\x0b", "\x85", "\u2028", "\U0001F600")


def tokenize(s):
    return list(s)      # every token of the strings universe is one code point


def string_neighbours(docs):
    """all ordered pairs (a, b) of the universe where b is a with one token inserted, deleted or replaced, or with a
    run of up to two tokens appended / prepended: the pairs an editor produces, with every line separator at every place"""
    have = set(docs)
    out = []
    seen = set()
    for a in docs:
        ta = tokenize(a)
        cands = set()
        for i in range(len(ta) + 1):
            for t in STR_TOKENS:
                cands.add("".join(ta[:i] + [t] + ta[i:]))
                for t2 in STR_TOKENS:
                    if i in (0, len(ta)):
                        cands.add("".join(ta[:i] + [t, t2] + ta[i:]))
        for i in range(len(ta)):
            cands.add("".join(ta[:i] + ta[i + 1:]))
            for t in STR_TOKENS:
                cands.add("".join(ta[:i] + [t] + ta[i + 1:]))
        for b in cands:
            if b != a and b in have and (a, b) not in seen:
                seen.add((a, b))
                out.append((a, b))
    return out


def string_sweep(chk, events, diff, patch, maxlen, r, n_plain):
    """Every neighbouring pair of the strings universe is diffed and patched by nbdime; the pairs a cheap screen marks
    (an exception, a patch result other than b, an empty diff) and a seeded sample of the others go to the TLC validation,
    bare and as the value of an object key. The screen only selects; the verdict is DiffTrace's."""
    docs = [d for d in universe_docs(chk, "strings", maxlen) if isinstance(d, str)]
    pairs = string_neighbours(docs)
    marked, plain = [], []
    for a, b in pairs:
        try:
            d = diff(a, b)
            ok = patch(a, d) == b and len(d) > 0
        except Exception:  # noqa
            ok = False
        (plain if ok else marked).append((a, b))
    r.shuffle(plain)
    chosen = marked[:400] + plain[:n_plain]
    for k, (a, b) in enumerate(chosen):
        for w, wrap in enumerate((lambda t: t, lambda t: {"s": t, "k": 1})):
            ev, d = diff_event("sw-%d-%d" % (k, w), wrap(a), wrap(b), diff, patch)
            events.append(ev)
            chk.count((wrap(a), wrap(b)), nontrivial=True)
    chk.notes["string_sweep"] = {"documents": len(docs), "neighbouring_pairs_diffed_and_patched": len(pairs),
                                 "marked_by_screen": len(marked), "forwarded_to_TLC": len(chosen) * 2}
    return len(chosen) * 2


C02_CLAUSES = ("Completes", "RoundTrip", "PyPatch", "PyPatchIsSpecPatch", "RepeatPatch", "DiffUnchangedByPatch", "EmptyOnlyIfSame")


def run_models(tier, chk=None, universes=None):
    """Model-check DiffModel per universe; return {universe: (docs, cases)}."""
    us = universes or UNIVERSES[tier]

    def one(u):
        r = tlc.run("DiffModel", MODEL_CFG % (u[1], u[0]), workers=1, timeout=3000,
                    name="DiffModel-%s" % u[0], xmx="8g")
        if r.invariant_violated or r.error:
            raise tlc.TLCError("DiffModel %s: invariant violated / error:\n%s"
                               % (u, "\n".join(l for l in r.out.splitlines() if not l.startswith('"'))[-3000:]))
        return u, r

    out = {}
    with ThreadPoolExecutor(max_workers=len(us)) as ex:
        for u, r in ex.map(one, us):
            docs = [dec(x) for x in r.json_lines("DOC")]
            cases = r.json_lines("CASE")
            if chk is not None:
                chk.add_model(r, "DiffModel %s MaxLen=%d" % u)
            out[u[0]] = (docs, cases)
    return out


SEQ_CFG = """SPECIFICATION Spec
CONSTANT LineSeps <- PyLineSeps
CONSTANT MaxLen = %d
CONSTANT EMIT = TRUE
INVARIANT Correct
INVARIANT Optimal
INVARIANT EmptyIffEqual
INVARIANT InContract
CONSTRAINT Emit
CHECK_DEADLOCK FALSE
"""


def seq_diff_model(chk, maxlen):
    """TLC checks the transcribed list differ on every pair; its diffs are compared with nbdime's (model drift)."""
    import json
    from nbdime.diffing.generic import diff
    from .encode import enc_diff
    r = tlc.run("SeqDiffModel", SEQ_CFG % maxlen, workers=1, timeout=1800, name="SeqDiffModel", xmx="6g")
    if r.invariant_violated or r.error:
        raise tlc.TLCError("SeqDiffModel: %s\n%s" % (r.error, r.out[-1500:]))
    chk.add_model(r, "SeqDiffModel MaxLen=%d (all pairs of lists over 4 atoms)" % maxlen)
    seen = set()
    n = drift = 0
    first = None
    for c in r.json_lines("DIFF"):
        key = json.dumps([c["a"], c["b"]], sort_keys=True)
        if key in seen:
            continue
        seen.add(key)
        a, b = dec(c["a"]), dec(c["b"])
        n += 1
        try:
            got = enc_diff(diff(a, b))
        except Exception as e:  # noqa
            got = "raised %s" % type(e).__name__
        exp = c["d"] if isinstance(c["d"], list) else []
        if json.dumps(got, sort_keys=True) != json.dumps(exp, sort_keys=True):
            drift += 1
            first = first or {"a": a, "b": b}
    chk.notes["SeqDiffAlgo_vs_nbdime"] = {"pairs_compared": n, "model_drift": drift, "first_drift": first}


def replay_cases(chk, cases, patcher, label):
    """spec -> code: nbdime.patch(a, d) must equal the spec's Patch(a, d)."""
    n = 0
    for c in cases:
        a = dec(c["a"])
        d = dec_diff(c["d"])
        from nbdime.diff_utils import to_diffentry_dicts
        try:
            got = enc(to_plain(patcher(a, to_diffentry_dicts(d))))
        except Exception as e:  # noqa
            t, w = common.exc_info(e)
            chk.violation("spec2code-patch-raises:%s:%s" % (t, w),
                          "nbdime patch raised %s at %s on a TLC-generated well-formed (doc, diff)" % (t, w),
                          {"a": a, "d": d, "expected": dec(c["r"])})
            continue
        n += 1
        if got != enc(dec(c["r"])):      # dec/enc normalises TLC's printing of empty objects
            chk.violation("spec2code-patch-differs:%s" % label,
                          "nbdime patch(a, d) differs from the specification's Patch(a, d)",
                          {"a": a, "d": d, "expected": dec(c["r"]), "got": dec(got)})
    return n


def classify(chk, prop, ev, clauses, clause_set):
    """Turn the failing clauses of one event into violations / known findings."""
    cl = [c for c in clauses if c in clause_set]
    if not cl:
        return
    rep = {"tid": ev["tid"], "failed_clauses": clauses,
           "a": safe_dec(ev["a"]), "b": safe_dec(ev["b"])}
    if "d" in ev:
        rep["d"] = safe_dec_diff(ev["d"])
    if "raised" in ev:
        rep["raised"] = ev["raised"]
    if "Completes" in cl:
        sig = "diff-raises:%s:%s" % (ev["raised"]["type"], ev["raised"]["where"])
        chk.violation(sig, "diff raised %(type)s at %(where)s: %(msg)s" % ev["raised"], rep)
        return
    if "RoundTripModNum" not in clauses and set(cl) <= {"RoundTrip", "PyPatch", "EmptyOnlyIfSame"}:
        # result equals target up to Python's True == 1 == 1.0 identification only
        chk.violation("roundtrip-differs-only-in-number-kind",
                      "patch(a, diff(a, b)) differs from b, but only in bool/int/float kind of leaves", rep)
        return
    for c in cl:
        chk.violation("clause:%s" % c, "clause %s of the differ contract is false" % c, rep)


def safe_dec(v):
    try:
        return dec(v)
    except Exception:
        return v


def safe_dec_diff(d):
    try:
        return dec_diff(d)
    except Exception:
        return d


def run():
    import nbdime
    from nbdime.diffing.generic import diff
    from nbdime.patching import patch

    chk = Check("C02")
    tier = chk.tier
    models = run_models(tier, chk)
    seq_diff_model(chk, 2 if chk.quick else 3)
    # the step from the line based string diff to the character based one (FlattenDiff.tla), compared with nbdime's
    from . import flatten
    flatten.flatten_model(chk, 2)
    if not chk.quick:
        flatten.flatten_model(chk, 3, emit=False)

    # ---- spec -> code ------------------------------------------------------
    nrep = 0
    for u, (docs, cases) in models.items():
        nrep += replay_cases(chk, cases, patch, u)
        for c in cases[:1]:
            chk.sample({"direction": "spec->code", "universe": u, "a": dec(c["a"]),
                        "d": dec_diff(c["d"]), "spec_patch_result": dec(c["r"])})
    chk.notes["spec_to_code_patch_cases"] = nrep
    chk.count(n=nrep, nontrivial=False)

    # ---- code -> spec ------------------------------------------------------
    events = []
    k = 0
    for u, (docs, cases) in models.items():
        for a, b in itertools.product(docs, docs):
            ev, d = diff_event("u-%s-%d" % (u, k), a, b, diff, patch)
            k += 1
            events.append(ev)
            chk.count((a, b), nontrivial=(a != b))
    nexh = len(events)
    r = common.rng("c02")
    nrand = 1500 if chk.quick else 40000
    for j in range(nrand):
        a, b = genjson.rand_pair(r, depth=3 if j % 3 else 4)
        ev, d = diff_event("r-%d" % j, a, b, diff, patch)
        events.append(ev)
        chk.count((a, b), nontrivial=(a != b))
    # strings with very long lines (a line of more than 1000 characters is nothing unusual in a data cell): a
    # character of a run of equal characters deleted / inserted, one character replaced, in the middle of the line
    nlong = 0
    for L in (30, 1100):
        head, tail = "p" * L, "q" * L
        for mid_a, mid_b in (("AAAA", "AAA"), ("AAA", "AAAA"), ("  ", " "), ("abab", "ab"), ("AXA", "AYA"), ("", "Z")):
            for wrap in (lambda t: t, lambda t: "first line\n" + t + "\nlast line\n", lambda t: {"s": t + "\n", "n": 1}):
                a, b = wrap(head + mid_a + tail), wrap(head + mid_b + tail)
                ev, d = diff_event("long-%d" % nlong, a, b, diff, patch)
                nlong += 1
                events.append(ev)
                chk.count((a, b), nontrivial=True)
    nsweep = string_sweep(chk, events, diff, patch, 3 if chk.quick else 4, r, 600 if chk.quick else 20000)
    chk.sample({"direction": "code->spec", "a": common.json.loads(common.json.dumps(dec(events[-1]["a"]))),
                "b": dec(events[-1]["b"]), "d": safe_dec_diff(events[-1].get("d", []))})
    v = common.validate("DiffTrace", common.diff_trace_cfg(), events, batch=400, name="c02")
    chk.add_validation(v, "DiffTrace on %d exhaustive + %d random generic pairs + %d pairs of strings with long lines + %d events of the "
                       "string pair sweep" % (nexh, nrand, nlong, nsweep))
    byid = {ev["tid"]: ev for ev in events}
    for tid, clauses in v.fails.items():
        classify(chk, "C02", byid[tid], clauses, C02_CLAUSES)
    chk.cov["exhaustive"] = False
    chk.notes["exhaustive_part"] = ("all %d same-kind pairs of the TLC-enumerated universes %s"
                                    % (nexh, UNIVERSES[tier]))
    chk.cov["rule"] = ("pairs: full cross product of each TLC-enumerated bounded universe (lists/nested/"
                       "objects/strings) plus seeded random nested documents (70% related by random edits); "
                       "non-trivial = a != b; distinct by canonical JSON of (a, b)")
    chk.assumptions += [
        "harness/encode.py maps Python values to the tagged JSON universe faithfully (ints/floats as text)",
        "the specification's Patch/WellFormed (spec/DiffFormat.tla) is the documented meaning of the diff format",
    ]
    return chk.finish()


if __name__ == "__main__":
    common.main(run)
