"""C05 - merge obeys identity, one-sided adoption, agreement and side symmetry.

spec : MergeAlgo.tla - a TLA+ transcription of the list differ and of the list merge (chunking, chunk-type switch,
       concurrent inserts) on which TLC checks the laws for EVERY triple of lists over 3 atoms up to length 2 (quick)
       / 3 (thorough), and whose decisions are compared with nbdime's (model drift);
       MergeTrace.tla clauses LawHolds (no conflict and merged = expected) and Symmetric (same
       conflict verdict, same merged document when conflict free, unless SamePositionInsert(ld, rd),
       computed by the specification from the two recorded diffs).
c->s : notebooks: every base x single-side edit script X from spec/NotebookEdits.tla for the three unary
       laws under sampled strategies; all triples for symmetry (each event carries the swapped run);
       generic JSON: exhaustive triples of short lists / strings / objects of the TLC-enumerated universe.
"""
import itertools
import json

from . import common, mergefam, mergedrv
from . import concretize
from .common import Check
from .corpus import Corpus
from .mergefam import plan_item
from .c09 import classify
from .c02 import run_models
from .diffdrv import to_plain
from .encode import enc

CLAUSES = ("Completes", "LawHolds", "Symmetric")
SYM_STRATS = (("inline", None, None, True), ("mergetool", None, None, True), ("use-base", None, None, True),
              ("inline", None, None, False))


def law_tasks(pairs, r, n_strats):
    cli = mergefam.cli_strategy_tuples() + [("mergetool", None, None, True)]
    tasks = []
    for name, b, x, info in pairs:
        for law, (l, rr), exp in (("identity", (b, b), b), ("onesided", (x, b), x),
                                  ("onesided", (b, x), x), ("agreement", (x, x), x)):
            plan = [plan_item("cli", ("inline", None, None, True))]
            for s in r.sample(cli, n_strats):
                plan.append(plan_item("cli", s))
            tid = "%s-%s-%d" % (name, law, len(tasks))
            tasks.append((tid, b, l, rr, plan, {"law": law, "expected": enc(to_plain(exp))}))
    return tasks


def sym_tasks(triples):
    tasks = []
    for name, b, l, rr, info in triples:
        plan = [plan_item("cli", s, sym=True) for s in SYM_STRATS]
        tasks.append((name + "-sym", b, l, rr, plan, {"with_diffs": True}))
    return tasks


INSERTING = ("Insert", "InsertRich", "InsertRun", "Duplicate", "Replace", "Move")


def _screen(t):
    """both role orders under the default strategy: does the verdict or the conflict-free result differ?"""
    from nbdime.merging.notebooks import merge_notebooks
    mergedrv.quiet_logging()
    try:
        b, l, rr = (concretize.concrete(t[k]) for k in ("base", "local", "remote"))
        if not all(concretize.is_valid(x) for x in (b, l, rr)):
            return None
        args = mergedrv.strategy_args("inline", None, None, True)
        m1, d1 = merge_notebooks(b, l, rr, args)
        m2, d2 = merge_notebooks(b, rr, l, args)
    except Exception:
        return True
    c1, c2 = any(d.conflict for d in d1), any(d.conflict for d in d2)
    return c1 != c2 or (not c1 and m1 != m2)


def symmetry_sweep(chk, cap):
    """EVERY TLC-enumerated triple in which both sides edit the same position is merged in both role orders; the
    ones where a difference shows are forwarded to the full validation (where the specification decides, including
    the same-position-insertion carve-out).  The sweep only selects what TLC looks at; it decides nothing."""
    import multiprocessing
    from .corpus import enumerate_edits, _bucket
    def both_notebook_level(t):
        eds = [h["edit"] for h in t.get("hist") or []]
        return len(eds) == 2 and all(e.get("pos", e.get("from")) is None for e in eds)
    tr = [t for t in enumerate_edits(1, 1) if "same" in _bucket(t) or both_notebook_level(t)]
    with multiprocessing.get_context("fork").Pool(common.NCPU) as pool:
        flags = pool.map(_screen, tr, chunksize=64)
    cand = [t for t, f in zip(tr, flags) if f]
    plain = [t for t in cand if not any(h["edit"]["a"] in INSERTING for h in t["hist"])]
    rest = [t for t in cand if t not in plain][:max(0, cap - len(plain))]
    chk.notes["symmetry_sweep"] = {"same_position_triples_merged_both_ways": len(tr), "candidates": len(cand),
                                   "candidates_without_insertions": len(plain), "forwarded": len(plain[:cap]) + len(rest)}
    out = []
    for k, t in enumerate(plain[:cap] + rest):
        b, l, rr = (concretize.concrete(t[x]) for x in ("base", "local", "remote"))
        out.append(("sweep%d" % k, b, l, rr, {"source": "sweep", "script": t["hist"]}))
    return out


def generic_tasks(docs_by_universe, limit_atoms, r, maxtriples):
    tasks = []
    for u, docs in docs_by_universe.items():
        if limit_atoms:
            docs = [d for d in docs if small_doc(d)]
        trip = list(itertools.product(docs, repeat=3))
        if len(trip) > maxtriples:
            r.shuffle(trip)
            trip = trip[:maxtriples]
        tasks += triple_tasks(u, trip)
    return tasks


def triple_tasks(u, trip):
    """generic merge events for (base, local, remote) documents, the law shapes flagged"""
    tasks = []
    if True:
        for k, (b, l, rr) in enumerate(trip):
            opts = {"generic": True, "with_diffs": True}
            law = None
            jb, jl, jr = (json.dumps(x, sort_keys=True) for x in (b, l, rr))     # JSON equality: 1, 1.0 and true differ
            if jl == jb and jr == jb:
                law, exp = "identity", b
            elif jr == jb:
                law, exp = "onesided", l
            elif jl == jb:
                law, exp = "onesided", rr
            elif jl == jr:
                law, exp = "agreement", l
            if law:
                opts["law"] = law
                opts["expected"] = enc(exp)
            tasks.append(("g-%s-%d" % (u, k), b, l, rr, [plan_item("json", sym=True)], opts))
    return tasks


GENERIC_STRATS = ("use-base", "use-local", "use-remote", "union", "clear", "clear-all", "remove", "mergetool",
                  "inline-source", "fail", "take-max")


def generic_strategy_law_tasks(docs_by_universe, r, maxpairs):
    """'under any strategy' for the generic merger: documents {"v": doc} with every generic strategy name configured
    on /v (and on its items), for the four law shapes of every pair (b, X)."""
    tasks = []
    for u, docs in docs_by_universe.items():
        pairs = [(b, x) for b in docs for x in docs if b != x or type(b) is not type(x)]
        if len(pairs) > maxpairs:
            r.shuffle(pairs)
            pairs = pairs[:maxpairs]
        for k, (b, x) in enumerate(pairs):
            B, X = {"v": b, "k": 1}, {"v": x, "k": 1}
            for law, (l, rr), exp in (("identity", (B, B), B), ("onesided", (X, B), X), ("onesided", (B, X), X),
                                      ("agreement", (X, X), X)):
                plan = []
                for st in GENERIC_STRATS:
                    it = plan_item("json")
                    it["gstrat"] = {"/v": st, "/v/*": st}
                    plan.append(it)
                tasks.append(("gs-%s-%d-%s%d" % (u, k, law, len(tasks)), B, l, rr, plan,
                              {"generic": True, "law": law, "expected": enc(exp)}))
    return tasks


def small_doc(d):
    ok = (1, 2, "x")
    if isinstance(d, list):
        return all((v in ok and not isinstance(v, (bool, float))) or isinstance(v, (list, dict)) for v in d) \
            and all(not isinstance(v, (list, dict)) or small_doc(v) for v in d)
    if isinstance(d, dict):
        return all((v in ok and not isinstance(v, (bool, float))) for v in d.values())
    return True


ALGO_CFG = """SPECIFICATION Spec
CONSTANT LineSeps <- PyLineSeps
CONSTANT MaxLen = %d
CONSTANT EMIT = %s
CONSTANT Kind = "%s"
CONSTANT NIns = %d
CONSTANT NPatch = "%s"
CONSTANT StratMode = "%s"
CONSTANT NAtoms = %d
INVARIANT DiffsCorrect
INVARIANT ChunkShapes
INVARIANT NoErrorArm
INVARIANT Applies
INVARIANT AllLocal
INVARIANT AllRemote
INVARIANT Laws
INVARIANT Symmetric
INVARIANT DisjointClean
INVARIANT EmbeddedAllWF
INVARIANT StrProvenanceModGlue
INVARIANT UseSideResolved
INVARIANT UseSideEquiv
INVARIANT StrategyInert
INVARIANT ClearAllClears
INVARIANT UnionKeepsBoth
INVARIANT TransientYields
CONSTRAINT Emit
CHECK_DEADLOCK FALSE
"""


def nbdime_strategies(kind, st):
    """the Strategies object that MergeAlgo's configuration st = [l, i, k, t] stands for"""
    from nbdime.utils import Strategies
    d = {}
    if st["l"]:
        d["/"] = st["l"]
    if kind in ("lists", "strings"):
        if st["i"]:
            d["/*"] = st["i"]
        tr = []
    elif kind == "nested":
        if st["i"]:
            d["/*"] = st["i"]
        if st["k"]:
            d["/*/a"] = d["/*/b"] = st["k"]
        tr = ["/*/" + k for k in st["t"]]
    else:
        if st["k"]:
            d["/a"] = d["/b"] = st["k"]
        tr = ["/" + k for k in st["t"]]
    return Strategies(d, transients=tr), d, tr


def merge_algo(chk, maxlen, emit, kind="lists", nins=3, npatch="all", strat="none", natoms=3):
    """Design level: TLC checks the laws on the TLA+ transcription of the list merge (MergeAlgo.tla) for every
    triple of the universe (strat != none: under every strategy configuration of StratU, with the C10 invariants);
    with emit the transcription is compared with nbdime's decisions (model drift)."""
    import json
    from . import tlc
    from .encode import dec, enc, enc_diff
    mergedrv.quiet_logging()
    tag = "%s-%d%s%s" % (kind, maxlen, "" if strat == "none" else "-strat-" + strat, "" if natoms == 3 else "-atoms%d" % natoms)
    # PrintT lines are written atomically also with several workers (every line is checked to parse below)
    r = tlc.run("MergeAlgo", ALGO_CFG % (maxlen, "TRUE" if emit else "FALSE", kind, nins, npatch, strat, natoms), workers=common.NCPU,
                timeout=3000, name="MergeAlgo-" + tag, xmx="8g")
    if emit:
        try:
            r.json_lines("MERGE")
        except ValueError:      # a garbled line: print from a single worker
            r = tlc.run("MergeAlgo", ALGO_CFG % (maxlen, "TRUE", kind, nins, npatch, strat, natoms), workers=1,
                        timeout=3000, name="MergeAlgo-" + tag + "-w1", xmx="8g")
    if r.invariant_violated or r.error:
        raise tlc.TLCError("MergeAlgo: %s\n%s" % (r.error, "\n".join(l for l in r.out.splitlines() if not l.startswith('"'))[-2500:]))
    chk.add_model(r, "MergeAlgo %s MaxLen=%d (%s)%s" % (kind, maxlen, "every pair of well-formed diffs of every base, NIns=%d NPatch=%s"
                                                   % (nins, npatch) if kind in ("nested", "strings") else "all triples over %d atoms" % natoms,
                                                   "" if strat == "none" else " x strategy configurations '%s'" % strat))
    if not emit:
        return []
    from nbdime.merging.generic import decide_merge, decide_merge_with_diff
    from nbdime.merging.decisions import apply_decisions
    from nbdime.diff_utils import to_diffentry_dicts
    from .encode import dec_diff, enc_path
    n = drift = 0
    first = None
    docs = {}
    cases = []
    classes = {}

    def lst(x):
        return x if isinstance(x, list) else []
    for m in r.json_lines("MERGE"):
        b, l, rr = dec(m["base"]), dec(m["local"]), dec(m["remote"])
        n += 1
        docs.setdefault(json.dumps([b, l, rr], sort_keys=True), (b, l, rr))
        st = m.get("st") or {"l": "", "i": "", "k": "", "t": []}
        st["t"] = lst(st.get("t"))
        plain = not (st["l"] or st["i"] or st["k"] or st["t"])
        strategies, sd, tr = (None, {}, []) if plain else nbdime_strategies(kind, st)
        if strat != "none":
            cases.append((b, l, rr, st, sd, tr))
        try:
            if kind in ("nested", "strings"):
                D = decide_merge_with_diff(b, l, rr, to_diffentry_dicts(dec_diff(lst(m["ld"]))),
                                           to_diffentry_dicts(dec_diff(lst(m["rd"]))), strategies)
            else:
                D = decide_merge(b, l, rr, strategies)
            mm = apply_decisions(b, D)
            got = [{"path": enc_path(d.common_path), "action": d.action, "conflict": d.conflict,
                    "local_diff": enc_diff(d.local_diff or []), "local_null": d.local_diff is None,
                    "remote_diff": enc_diff(d.remote_diff or []),
                    "custom_diff": enc_diff(d.get("custom_diff") or [])} for d in D]
            gm = enc(dict(mm) if kind == "objects" else mm if kind == "strings" else list(mm))
        except Exception as e:  # noqa
            got, gm = "raised %s: %s" % (type(e).__name__, str(e)[:80]), None
        exp = [{"path": lst(d["common_path"]), "action": d["action"], "conflict": d["conflict"],
                "local_diff": lst(d["local_diff"]), "local_null": d["local_null"],
                "remote_diff": lst(d["remote_diff"]), "custom_diff": lst(d.get("custom_diff"))}
               for d in lst(m["D"])]
        if json.dumps(got, sort_keys=True) != json.dumps(exp, sort_keys=True) or gm != enc(dec(m["merged"])):
            drift += 1
            cls = "%s: %s" % (",".join("%s=%s" % kv for kv in sorted(sd.items())) + (";T" if tr else ""),
                              got[:40] if isinstance(got, str) else "decisions differ" if json.dumps(got, sort_keys=True) != json.dumps(exp, sort_keys=True) else "merged differs")
            classes[cls] = classes.get(cls, 0) + 1
            first = first or {"base": b, "local": l, "remote": rr, "ld": m.get("ld"), "rd": m.get("rd"), "strategies": sd,
                              "transients": tr, "nbdime": got, "model": exp}
    chk.notes.setdefault("MergeAlgo_vs_nbdime", {})[tag] = {"triples_compared": n, "model_drift": drift, "first_drift": first,
                                                             "drift_classes": dict(sorted(classes.items(), key=lambda kv: -kv[1])[:12])}
    chk.count(("MergeAlgo", kind, maxlen, strat), nontrivial=False, n=n)
    if strat != "none":
        return cases
    return list(docs.values())


def run():
    chk = Check("C05")
    corp = Corpus(chk)
    r = common.rng("c05")
    tdocs = merge_algo(chk, 2, True, natoms=4)
    tdocs += merge_algo(chk, 1, True, kind="objects", natoms=4)
    # the triples in which 1 and true both occur (equal for Python's ==, different JSON values) also go through the
    # real merger in both role orders (clause Symmetric)
    def mixes(x):
        vals = list(x.values()) if isinstance(x, dict) else list(x)
        return any(v is True for v in vals), any(v == 1 and v is not True for v in vals)
    def both(t):
        m = [mixes(x) for x in t]
        return any(a for a, _ in m) and any(b for _, b in m)
    tdocs = [t for t in tdocs if both(t)]
    if chk.quick:
        ndocs = merge_algo(chk, 1, True, kind="nested", nins=2, npatch="all")
        sdocs = merge_algo(chk, 1, True, kind="strings", nins=2, npatch="all")
    else:
        merge_algo(chk, 3, False)
        ndocs = merge_algo(chk, 1, True, kind="nested", nins=3, npatch="all")
        merge_algo(chk, 2, False, kind="nested", nins=3, npatch="few")
        sdocs = merge_algo(chk, 1, True, kind="strings", nins=3, npatch="all")
        merge_algo(chk, 2, False, kind="strings", nins=2, npatch="all")
    ndocs = ndocs + [({"s": b}, {"s": l}, {"s": r}) for b, l, r in sdocs]
    r.shuffle(tdocs)
    r.shuffle(ndocs)
    if chk.quick:
        pairs = corp.pairs(n_enum=220, n_random=60, salt="c05")
        triples = corp.triples(n_enum=360, n_random=100, salt="c05s") + symmetry_sweep(chk, 150)
        models = run_models("quick", chk, universes=[("lists", 2), ("objects", 2), ("strings", 1)])
        gtasks = generic_tasks({u: m[0] for u, m in models.items()}, True, r, 2500)
        gtasks += generic_strategy_law_tasks({u: m[0] for u, m in models.items()}, r, 60)
        gtasks += triple_tasks("algo-nested", ndocs[:700]) + triple_tasks("algo-types", tdocs[:400])
        ntasks = law_tasks(pairs, r, 2) + sym_tasks(triples)
    else:
        pairs = corp.pairs(n_enum=2500, n_random=1500, salt="c05")
        triples = corp.triples(n_enum=6000, n_random=3000, salt="c05s") + symmetry_sweep(chk, 1500)
        models = run_models("thorough", chk, universes=[("lists", 2), ("objects", 2), ("strings", 2), ("nested", 1)])
        gtasks = generic_tasks({u: m[0] for u, m in models.items()}, False, r, 70000)
        gtasks += generic_strategy_law_tasks({u: m[0] for u, m in models.items()}, r, 1500)
        gtasks += triple_tasks("algo-nested", ndocs) + triple_tasks("algo-types", tdocs[:6000])
        ntasks = law_tasks(pairs, r, 4) + sym_tasks(triples)
    events = mergefam.generate(ntasks + gtasks)
    for tid, names in events.meta:
        chk.count((tid,), nontrivial=True, n=len(names))
    v = mergefam.validate(chk, events, "MergeTrace on %d notebook law/symmetry events + %d generic triples"
                          % (len(ntasks), len(gtasks)), batch=150)
    idx = mergefam.index_runs(events)
    for key, cl in v.fails.items():
        ev, run_ = idx[key]
        classify(chk, ev, run_, cl, CLAUSES, {"law": ev.get("law")})
    chk.notes["generic_triples"] = len(gtasks)
    chk.notes["notebook_events"] = len(ntasks)
    chk.sample({"law_event": ntasks[1][0], "law": ntasks[1][5].get("law")})
    chk.sample({"generic_triple": [gtasks[5][1], gtasks[5][2], gtasks[5][3]]})
    chk.cov["rule"] = ("unary laws: (base, X) from spec/NotebookEdits.tla (<= 2 edits) as (b,b,b), (b,X,b), (b,b,X), (b,X,X) under "
                       "the default and sampled strategies; symmetry: enumerated + random triples, each merged in both role "
                       "orders under inline / mergetool / use-base / no-transients; generic JSON: all triples of the "
                       "TLC-enumerated universes (atoms restricted in quick); distinct by event id")
    chk.assumptions += ["the symmetry carve-out is SamePositionInsert(ld, rd) evaluated by the specification on nbdime's own "
                        "base->local and base->remote diffs",
                        "side-dependent strategies (use-local/use-remote) are excluded from the symmetry clause by construction"]
    return chk.finish()


if __name__ == "__main__":
    common.main(run)
