"""C13 - diff, patch, merge and rendering never modify their inputs.

spec : FrameTrace.tla - frame conditions per public call: ArgsUnchanged, ArgsUnchangedAfterResultMutation (the result
       owns its containers), Recomputable.  (Process.tla carries the same frame condition for the ignore table.)
c->s : every public library function on inputs from the C01-C03 spaces; arguments are re-encoded after the call, after
       every container reachable from the result has been scribbled on, and the call is repeated on the same objects.
"""
import copy
import io
import json
import multiprocessing

from . import common, tlc, genjson, mergedrv
from .common import Check
from .corpus import Corpus
from .diffdrv import to_plain
from .encode import enc

TRACE_CFG = """SPECIFICATION Spec
POSTCONDITION Accepted
CHECK_DEADLOCK FALSE
"""
CLAUSES = ("ArgsUnchanged", "ArgsUnchangedAfterResultMutation", "Recomputable", "RecomputedSame")


def jsonable(x):
    """the JSON an argument serialises to (tuples -> lists, DiffEntry/NotebookNode -> objects)"""
    return json.loads(json.dumps(x))


def scribble(x, depth=0):
    """modify every container reachable from x"""
    if depth > 40:
        return
    if isinstance(x, dict):
        for v in list(x.values()):
            scribble(v, depth + 1)
        try:
            x["__scribble__"] = [1]
        except Exception:
            pass
    elif isinstance(x, list):
        for v in list(x):
            scribble(v, depth + 1)
        try:
            x.append("__scribble__")
        except Exception:
            pass


def frame_event(tid, fn_name, fn, args, mutate_result=True):
    args = copy.deepcopy(args)        # each event works on its own objects (a scribbled result may alias them)
    ev = {"tid": tid, "fn": fn_name, "before": [enc(jsonable(a)) for a in args]}
    try:
        res = fn(*args)
    except Exception as e:  # noqa
        t, w = common.exc_info(e)
        ev["raised"] = {"type": t, "where": w, "msg": str(e)[:200]}
        return ev
    ev["after"] = [enc(jsonable(a)) for a in args]
    if mutate_result and res is not None:
        ev["result"] = enc(jsonable(res))
        scribble(res)
        ev["scribbled"] = [enc(jsonable(a)) for a in args]
        try:
            again = fn(*args)
            ev["again"] = enc(jsonable(again))
        except Exception as e:  # noqa
            t, w = common.exc_info(e)
            ev["again"] = {"t": "x", "why": "raised %s at %s" % (t, w)}
    return ev


def worker(task):
    kind, tid, payload = task
    import nbdime
    from nbdime.diffing.generic import diff
    from nbdime.patching import patch, patch_notebook
    from nbdime import diff_notebooks
    from nbdime.merging.generic import decide_merge
    from nbdime.merging.decisions import apply_decisions
    from nbdime.merging.notebooks import merge_notebooks, decide_notebook_merge
    from nbdime.prettyprint import (PrettyPrintConfig, pretty_print_notebook, pretty_print_notebook_diff,
                                    pretty_print_merge_decisions)
    mergedrv.quiet_logging()
    evs = []
    if kind == "generic":
        a, b = payload
        evs.append(frame_event(tid + "-diff", "diff", diff, [a, b]))
        try:
            d = diff(a, b)
            evs.append(frame_event(tid + "-patch", "patch", patch, [a, d]))
        except Exception:
            pass
    elif kind == "gtriple":
        b, l, r = payload
        evs.append(frame_event(tid + "-decide_merge", "decide_merge", decide_merge, [b, l, r]))
        try:
            D = decide_merge(b, l, r)
            evs.append(frame_event(tid + "-apply", "apply_decisions", apply_decisions, [b, D]))
        except Exception:
            pass
    elif kind == "pair":
        a, b = payload
        evs.append(frame_event(tid + "-diffnb", "diff_notebooks", diff_notebooks, [a, b]))
        try:
            # (if the differ fails here, after an earlier result was modified, the event above already says so)
            d = diff_notebooks(a, b)
            evs.append(frame_event(tid + "-patchnb", "patch_notebook", patch_notebook, [a, d]))
            cfg = lambda: PrettyPrintConfig(out=io.StringIO(), use_color=False)  # noqa
            evs.append(frame_event(tid + "-ppnb", "pretty_print_notebook", lambda nb: pretty_print_notebook(nb, cfg()), [b], False))
            evs.append(frame_event(tid + "-ppdiff", "pretty_print_notebook_diff",
                                   lambda x, y: pretty_print_notebook_diff("a", "b", x, y, cfg()), [a, d], False))
        except Exception:
            pass
    elif kind == "dmodel":
        from . import decmodel
        base, plain = payload
        evs.append(frame_event(tid + "-applydm", "apply_decisions", apply_decisions, [base, decmodel.py_decisions(plain)]))
    else:
        b, l, r, strat = payload
        args = mergedrv.strategy_args(*strat)
        evs.append(frame_event(tid + "-merge", "merge_notebooks",
                               lambda x, y, z: merge_notebooks(x, y, z, args), [b, l, r]))
        evs.append(frame_event(tid + "-decide", "decide_notebook_merge",
                               lambda x, y, z: decide_notebook_merge(x, y, z, args), [b, l, r]))
        try:
            D = decide_notebook_merge(b, l, r, args)
            evs.append(frame_event(tid + "-applynb", "apply_decisions", apply_decisions, [b, D]))
            cfg = PrettyPrintConfig(out=io.StringIO(), use_color=False)
            evs.append(frame_event(tid + "-ppdec", "pretty_print_merge_decisions",
                                   lambda x, y: pretty_print_merge_decisions(x, y, cfg), [b, D], False))
        except Exception:
            pass
    return [json.dumps(e, separators=(",", ":")) for e in evs], [(e["tid"], e["fn"], "raised" in e) for e in evs]


def run():
    chk = Check("C13", level="exploration")
    corp = Corpus(chk)
    r = common.rng("c13")
    tasks = []
    n = 400 if chk.quick else 12000
    for k in range(n):
        tasks.append(("generic", "g%d" % k, genjson.rand_pair(r, depth=3)))
    for k in range(n // 2):
        tasks.append(("gtriple", "t%d" % k, genjson.rand_triple(r, depth=2)))
    pairs = corp.pairs(n_enum=350 if chk.quick else 5000, n_random=120 if chk.quick else 3000, n_unrelated=30 if chk.quick else 600, salt="c13")
    for name, a, b, info in pairs:
        tasks.append(("pair", "p" + name, (a, b)))
    triples = corp.triples(n_enum=260 if chk.quick else 6000, n_random=90 if chk.quick else 2500, salt="c13",
                           n_outedits=120 if chk.quick else 4000)
    strategies = [("inline", None, None, True), ("mergetool", None, None, True), ("use-local", None, None, True),
                  ("inline", "use-remote", "clear-all", False), ("use-base", None, "remove", True)]
    for k, (name, b, l, rr, info) in enumerate(triples):
        if info.get("source") in ("output-edits", "output-scenario"):
            # the strategies differ most inside output lists: every one of them
            for j, st in enumerate(strategies):
                tasks.append(("triple", "m%s-s%d" % (name, j), (b, l, rr, st)))
        else:
            tasks.append(("triple", "m" + name, (b, l, rr, strategies[k % len(strategies)])))
    # decision lists of spec/DecisionModel.tla (a well-formed diff cut into decisions: several decisions of one path that
    # patch the same item / line, pushed paths, clear_all ...): the applier must leave the list and the base as they were
    from . import decmodel
    from .encode import dec
    dm = decmodel.run_models(chk, kinds=(("lists", 3), ("strings", 3)) if chk.quick else None)
    for kind, cases in sorted(dm.items()):
        for k, c in enumerate(decmodel.sample(cases, r, 1500 if chk.quick else 20000)):
            tasks.append(("dmodel", "dm-%s-%d" % (kind, k), (dec(c["base"]), [decmodel.dec_decision(e) for e in c["D"]])))
    ctx = multiprocessing.get_context("fork")
    with ctx.Pool(common.NCPU) as pool:
        res = pool.map(worker, tasks, chunksize=8)
    lines, meta = [], {}
    for ls, ms in res:
        lines += ls
        for tid, fn, raised in ms:
            meta[tid] = fn
            chk.count((tid,), nontrivial=not raised)
    v = common.validate("FrameTrace", TRACE_CFG, lines, batch=150, name="c13")
    chk.add_validation(v, "FrameTrace on %d calls" % len(lines))
    per_fn = {}
    for fn in meta.values():
        per_fn[fn] = per_fn.get(fn, 0) + 1
    chk.notes["calls_per_function"] = per_fn
    for tid, clauses in v.fails.items():
        for c in clauses:
            if c in CLAUSES:
                chk.violation("frame:%s:%s" % (meta[tid], c), "%s: clause %s is false (event %s)" % (meta[tid], c, tid), {"event": tid})
    chk.sample({"functions": sorted(per_fn)})
    chk.sample({"example_task": tasks[0][1], "kind": tasks[0][0], "a": tasks[0][2][0]})
    chk.cov["rule"] = ("calls of diff, patch, decide_merge, apply_decisions on random generic JSON; diff_notebooks, patch_notebook, "
                       "pretty_print_notebook, pretty_print_notebook_diff on corpus pairs; merge_notebooks, decide_notebook_merge, "
                       "apply_decisions, pretty_print_merge_decisions on corpus triples under five strategies; non-trivial = the call "
                       "returned; distinct by call id")
    chk.assumptions += ["'serialises to the same JSON' is decided on json.loads(json.dumps(arg)) encoded into the tagged universe",
                        "a call that raises is not a C13 matter (C02/C03 decide that)"]
    return chk.finish()


if __name__ == "__main__":
    common.main(run)
