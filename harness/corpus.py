"""Notebook pairs and triples for the input-quantified properties.

Source 1 (TLC): spec/NotebookEdits.tla enumerates every (base, local, remote) reachable
with <= MaxL / MaxR edit actions per side from the base templates; the abstract notebooks
are concretised by harness/concretize.py.
Source 2 (seeded random walk over the same edit actions): larger notebooks, longer scripts.
Every notebook is validated with nbformat for its declared minor before use."""
import copy
import json

from . import common, tlc, concretize

NE_CFG = """SPECIFICATION Spec
CONSTANT MaxL = %d
CONSTANT MaxR = %d
CONSTANT BaseIds = {%s}
CONSTANT EMIT = TRUE
INVARIANT TypeOK
INVARIANT UniqueCids
VIEW View
CONSTRAINT Emit
CHECK_DEADLOCK FALSE
"""

ALL_BASES = ("b1", "b2", "b3", "b4", "b5", "b6", "b7")

OE_CFG = """SPECIFICATION Spec
CONSTANT BaseIds = {"o1", "o2", "o3", "o4", "o5", "o6"}
CONSTANT MaxEdits2 = %d
CONSTANT MaxEdits3 = %d
CONSTANT EMIT = TRUE
INVARIANT TypeOK
INVARIANT ClassTotal
INVARIANT Budget
CONSTRAINT Emit
CHECK_DEADLOCK FALSE
"""


def enumerate_output_edits(max2, max3, chk=None):
    """Run TLC on OutputEdits; every (base, per-output edits of both sides, list edits) within the bounds."""
    r = tlc.run("OutputEdits", OE_CFG % (max2, max3), workers=1, timeout=1800, name="OutputEdits-%d-%d" % (max2, max3), xmx="8g")
    if r.invariant_violated or r.error:
        raise tlc.TLCError("OutputEdits: %s\n%s" % (r.error, r.out[-2000:]))
    if chk is not None:
        chk.add_model(r, "OutputEdits MaxEdits2=%d MaxEdits3=%d" % (max2, max3))
    return list(r.json_lines("OUTEDIT"))


_ENUM_CACHE = {}


def enumerate_edits(maxl, maxr, bases=ALL_BASES, chk=None, simulate=None, depth=None, seed=None):
    """Run TLC on NotebookEdits; return list of abstract triples (dicts), deduplicated (memoised per process)."""
    ck = (maxl, maxr, tuple(bases))
    if simulate is None and ck in _ENUM_CACHE:
        return copy.deepcopy(_ENUM_CACHE[ck]) if False else list(_ENUM_CACHE[ck])
    cfg = NE_CFG % (maxl, maxr, ",".join('"%s"' % b for b in bases))
    r = tlc.run("NotebookEdits", cfg, workers=1, timeout=1800, name="NotebookEdits-%d-%d" % (maxl, maxr),
                simulate=simulate, depth=depth, seed=seed, xmx="8g", check=(simulate is None))
    if r.invariant_violated or (r.error and simulate is None):
        raise tlc.TLCError("NotebookEdits: %s\n%s" % (r.error, r.out[-2000:]))
    if chk is not None and simulate is None:
        chk.add_model(r, "NotebookEdits MaxL=%d MaxR=%d bases=%s" % (maxl, maxr, ",".join(bases)))
    seen = set()
    out = []
    for t in r.json_lines("TRIPLE"):
        key = json.dumps([t["base"], t["local"], t["remote"]], sort_keys=True)
        if key in seen:
            continue
        seen.add(key)
        if isinstance(t.get("hist"), dict):
            t["hist"] = []
        out.append(t)
    if simulate is None:
        _ENUM_CACHE[ck] = out
        return list(out)
    return out


def _bucket(t):
    """Stratum of an enumerated triple: kinds of the two edits, their relative position and,
    for concurrent run insertions at one position, which runs."""
    hist = t.get("hist") or []
    if not hist:
        return ("none",)
    eds = sorted((h["edit"] for h in hist), key=lambda e: e["a"])
    key = tuple(e["a"] for e in eds)
    pos = [e.get("pos", e.get("from")) for e in eds]
    if len(eds) == 2 and None not in pos:
        d = abs(pos[0] - pos[1])
        key += ("same" if d == 0 else "adjacent" if d == 1 else "apart",)
        if d == 0 and "run" in eds[0] and "run" in eds[1]:
            key += (eds[0]["run"], eds[1]["run"])
        if d == 0 and "v" in eds[0] and "v" in eds[1]:
            key += (eds[0]["v"], eds[1]["v"]) if eds[0]["a"] == eds[1]["a"] else ("v",)
    return key


class Corpus(object):
    def __init__(self, chk):
        self.chk = chk
        self.discarded = 0
        concretize.self_check()

    def _conc(self, abs_nb):
        nb = concretize.concrete(abs_nb)
        if not concretize.is_valid(nb):
            self.discarded += 1
            return None
        return nb

    def _perturb(self, r, nb, n=2):
        import nbformat
        p, labels = concretize.perturb(r, nb, n)
        p = nbformat.from_dict(p)
        if not concretize.is_valid(p):
            self.discarded += 1
            return nb, []
        return p, labels

    # ---- triples -----------------------------------------------------------
    def output_edit_triples(self, n, salt="t", bounds=None):
        """[(name, base, local, remote, info)] from spec/OutputEdits.tla: a stratified seeded sample of n cases
        (strata = the model's per-output classes + whether the list itself is edited); n = None: all."""
        r = common.rng("corpus-oe-" + salt)
        max2, max3 = bounds or ((4, 2) if self.chk.quick else (6, 3))
        cases = enumerate_output_edits(max2, max3, self.chk)
        self.chk.notes.setdefault("corpus", {})["tlc_enumerated_output_edit_cases"] = len(cases)
        if n is not None and n < len(cases):
            r.shuffle(cases)
            buckets = {}
            for c in cases:
                buckets.setdefault((tuple(c["classes"]), c["ll"] != "none" or c["rl"] != "none"), []).append(c)
            keys = sorted(buckets, key=repr)
            r.shuffle(keys)
            picked = []
            while len(picked) < n and keys:
                for k in list(keys):
                    if buckets[k]:
                        picked.append(buckets[k].pop())
                        if len(picked) >= n:
                            break
                    else:
                        keys.remove(k)
            cases = picked
        out = []
        for k, c in enumerate(cases):
            b, l, rr = concretize.output_edit_triple(c, k)
            if not all(concretize.is_valid(x) for x in (b, l, rr)):
                self.discarded += 1
                continue
            out.append(("x%d" % k, b, l, rr, {"source": "output-edits", "script": c,
                                               "abstract": {"output_edits": c, "k": k % 4}}))
        return out

    def triples(self, n_enum=None, n_random=0, random_maxedits=4, salt="t", bases=ALL_BASES,
                want=lambda t: True, n_outedits=None):
        """[(name, base, local, remote, info)] : TLC-enumerated (1 edit per side, all bases;
        seeded sample of n_enum if given) plus n_random random-walk triples."""
        r = common.rng("corpus-" + salt)
        abstract = [t for t in enumerate_edits(1, 1, bases, self.chk) if want(t)]
        self.chk.notes.setdefault("corpus", {})["tlc_enumerated_triples"] = len(abstract)
        if n_enum is not None and n_enum < len(abstract):
            # stratified seeded sample: strata = kinds of the two edits, relative position, parameters;
            # 70% of the budget goes to strata where both sides touch the same position (conflict-rich)
            r.shuffle(abstract)
            groups = ({}, {})
            for t in abstract:
                k = _bucket(t)
                groups[0 if "same" in k else 1].setdefault(k, []).append(t)
            picked = []
            for buckets, budget in ((groups[0], int(n_enum * 0.7)), (groups[1], n_enum - int(n_enum * 0.7))):
                keys = sorted(buckets, key=repr)
                r.shuffle(keys)
                got = 0
                while got < budget and keys:
                    for k in list(keys):
                        if buckets[k]:
                            picked.append(buckets[k].pop())
                            got += 1
                            if got >= budget:
                                break
                        else:
                            keys.remove(k)
            abstract = picked
        out = []
        for k, t in enumerate(abstract):
            b, l, rr = self._conc(t["base"]), self._conc(t["local"]), self._conc(t["remote"])
            if b is None or l is None or rr is None:
                continue
            out.append(("e%d" % k, b, l, rr, {"source": "tlc", "script": t["hist"],
                                               "abstract": {"base": t["base"], "local": t["local"], "remote": t["remote"]}}))
        for k in range(n_random):
            ab = concretize.random_abstract(r)
            al, ll = concretize.random_script(r, ab, random_maxedits)
            ar, lr = concretize.random_script(r, ab, random_maxedits)
            b, l, rr = self._conc(ab), self._conc(al), self._conc(ar)
            if b is None or l is None or rr is None:
                continue
            if k % 2:
                l, pl = self._perturb(r, l)
                rr, pr = self._perturb(r, rr)
                ll = ll + [("Perturb", pl)]
                lr = lr + [("Perturb", pr)]
            out.append(("r%d" % k, b, l, rr, {"source": "random", "script": {"local": ll, "remote": lr},
                                               "abstract": {"base": ab, "local": al, "remote": ar}}))
        # concurrent edits inside the outputs of one cell (about a fifth of the random budget)
        for k, (b, l, rr, label) in enumerate(concretize.output_scenarios(r, max(0, n_random // 5))):
            out.append(("o%d" % k, b, l, rr, {"source": "output-scenario", "script": label,
                                               "abstract": {"scenario": label, "k": k, "cells": len(b.cells)}}))
        # per-output edits of one cell's outputs (spec/OutputEdits.tla); default: a third of the random budget
        if n_outedits is None:
            n_outedits = max(n_random // 3, 60) if n_random else 0
        if n_outedits:
            out += self.output_edit_triples(n_outedits, salt)
        self.chk.notes["corpus"]["discarded_invalid"] = self.discarded
        return out

    # ---- pairs -------------------------------------------------------------
    def pairs(self, n_enum=None, n_random=0, n_unrelated=0, random_maxedits=6, salt="p", bases=ALL_BASES):
        """[(name, a, b, info)]: TLC-enumerated (<= 2 edits from each base), random walks, unrelated."""
        r = common.rng("corpus-" + salt)
        abstract = enumerate_edits(2, 0, bases, self.chk)
        self.chk.notes.setdefault("corpus", {})["tlc_enumerated_pairs"] = len(abstract)
        if n_enum is not None and n_enum < len(abstract):
            r.shuffle(abstract)
            # every kind of single edit (action, variant) is represented - up to a third of the budget -, the rest is
            # a plain seeded sample
            buckets = {}
            for t in abstract:
                h = t.get("hist") or []
                if len(h) == 1:
                    buckets.setdefault((h[0]["edit"]["a"], h[0]["edit"].get("v")), []).append(t)
            keys = sorted(buckets, key=repr)
            r.shuffle(keys)
            first, seen = [], set()
            while len(first) < n_enum // 3 and keys:
                for k in list(keys):
                    if buckets[k]:
                        first.append(buckets[k].pop())
                        seen.add(id(first[-1]))
                        if len(first) >= n_enum // 3:
                            break
                    else:
                        keys.remove(k)
            abstract = first + [t for t in abstract if id(t) not in seen][:n_enum - len(first)]
        out = []
        for k, t in enumerate(abstract):
            a, b = self._conc(t["base"]), self._conc(t["local"])
            if a is None or b is None:
                continue
            out.append(("e%d" % k, a, b, {"source": "tlc", "script": t["hist"],
                                         "abstract": {"a": t["base"], "b": t["local"]}}))
        for k in range(n_random):
            ab = concretize.random_abstract(r)
            al, ll = concretize.random_script(r, ab, random_maxedits)
            a, b = self._conc(ab), self._conc(al)
            if a is None or b is None:
                continue
            if k % 2:
                b, pl = self._perturb(r, b, 3)
                ll = ll + [("Perturb", pl)]
            out.append(("r%d" % k, a, b, {"source": "random", "script": ll, "abstract": {"a": ab, "b": al}}))
        for k in range(n_unrelated):
            aa, bb = concretize.random_abstract(r), concretize.random_abstract(r)
            a, b = self._conc(aa), self._conc(bb)
            if a is None or b is None:
                continue
            out.append(("u%d" % k, a, b, {"source": "unrelated", "abstract": {"a": aa, "b": bb}}))
        self.chk.notes["corpus"]["discarded_invalid"] = self.discarded
        return out
