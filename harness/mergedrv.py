"""Drivers that run the real three-way merger and record one trace event per triple
(with one 'run' per strategy / role assignment)."""
import argparse
import contextlib
import copy
import itertools
import logging
import os
import shutil

from . import tlc
from .common import exc_info
from .diffdrv import to_plain
from .encode import enc, enc_diff, enc_decisions, canon

MERGE = ("inline", "use-base", "use-local", "use-remote")
INPUT = (None, "inline", "use-base", "use-local", "use-remote")
OUTPUT = (None, "inline", "use-base", "use-local", "use-remote", "remove", "clear-all")


def strategy_args(merge="inline", inp=None, out=None, transients=True, log_level="ERROR"):
    return argparse.Namespace(merge_strategy=merge, input_strategy=inp, output_strategy=out,
                              ignore_transients=transients, log_level=log_level)


def strategy_name(a):
    return "%s/%s/%s/%s" % (a.merge_strategy, a.input_strategy or "-", a.output_strategy or "-",
                            "T" if a.ignore_transients else "noT")


def all_cli_strategies():
    """The 4 x 5 x 7 x 2 combinations the command line accepts."""
    for m, i, o, t in itertools.product(MERGE, INPUT, OUTPUT, (True, False)):
        yield strategy_args(m, i, o, t)


def mergetool_args():
    return strategy_args("mergetool")


# ---------------------------------------------------------------------------
# external text-merge helper availability: a private PATH so that shutil.which
# in nbdime.prettyprint really finds / does not find git and diff3
# ---------------------------------------------------------------------------
_REAL = {name: shutil.which(name) for name in ("git", "diff3", "diff")}
_ORIG_PATH = os.environ.get("PATH", "")


@contextlib.contextmanager
def helper(kind):
    """kind in {'git', 'diff3', 'builtin', 'diffonly', 'all'}  (diffonly: a machine with `diff` but neither git nor
    diff3 - for merging that is "neither helper available")"""
    if kind == "all":
        yield
        return
    d = tlc.subdir("path-" + kind)
    want = {"git": ("git",), "diff3": ("diff3", "diff"), "builtin": (), "diffonly": ("diff",)}[kind]
    for name in want:
        dst = os.path.join(d, name)
        if _REAL.get(name) and not os.path.lexists(dst):
            try:
                os.symlink(_REAL[name], dst)
            except FileExistsError:      # another worker process was faster
                pass
    old = os.environ.get("PATH", "")
    os.environ["PATH"] = d
    try:
        yield
    finally:
        os.environ["PATH"] = old


def quiet_logging():
    logging.getLogger("nbdime").setLevel(logging.CRITICAL)
    import nbdime.log
    nbdime.log.logger.setLevel(logging.CRITICAL)


def run_merge(base, local, remote, args, name, validate=True, snapshot=False, extra=None):
    """One run: merge_notebooks(base, local, remote, args)."""
    import nbformat
    from nbdime.merging.notebooks import merge_notebooks
    run = {"name": name}
    if extra:
        run.update(extra)
    try:
        merged, decisions = merge_notebooks(base, local, remote, args)
    except Exception as e:  # noqa
        t, w = exc_info(e)
        run["raised"] = {"type": t, "where": w, "msg": str(e)[:200]}
        return run, None, None
    run["D"] = enc_decisions(decisions)
    run["merged"] = enc(to_plain(merged))
    run["jsvalid"] = published_schema_ok(decisions)
    if validate:
        from .concretize import schema_errors
        errs = schema_errors(merged)
        run["valid"] = not errs
        if errs:
            run["invalid_msg"] = errs[0]
        # format 4.5 also requires cell ids to be unique in a notebook (the JSON schema cannot say so; nbformat's
        # validate() checks it, or silently renames duplicates when asked to repair)
        if merged.get("nbformat_minor", 0) >= 5:
            ids = [c.get("id") for c in merged.get("cells", []) if "id" in c]
            dups = sorted({i for i in ids if ids.count(i) > 1}, key=str)
            run["uniqueids"] = not dups
            if dups:
                def idset(nb):
                    return {c.get("id") for c in nb.get("cells", []) if "id" in c}
                def idlist(nb):
                    return [c.get("id") for c in nb.get("cells", []) if "id" in c]

                def moved(d, side):
                    """the cells base and that side have in common come in another order on that side (one of them was
                    moved: which of the cells around the move the differ reports as deleted + inserted is its choice)"""
                    bl, sl = idlist(base), idlist(side)
                    bc, sc = [i for i in bl if i in sl], [i for i in sl if i in bl]
                    return d in bc and d in sc and bc != sc
                bi, li, ri = idset(base), idset(local), idset(remote)
                run["dup_classes"] = sorted({"same-id-introduced-on-both-sides" if (d not in bi and d in li and d in ri)
                                             else "base-cell-moved-on-one-side" if (d in bi and (moved(d, local) or moved(d, remote)))
                                             else "base-cell-id-duplicated" if d in bi else "other" for d in dups})
    if snapshot:
        run["after"] = [enc(to_plain(base)), enc(to_plain(local)), enc(to_plain(remote))]
    return run, merged, decisions


_VALIDATOR = None


def published_schema_ok(decisions):
    """The decision list, after a JSON round trip, against /repo's published schema files."""
    global _VALIDATOR
    import json
    import jsonschema
    from .common import REPO
    if _VALIDATOR is None:
        with open(os.path.join(REPO, "nbdime", "merge_format.schema.json")) as f:
            schema = json.load(f)
        with open(os.path.join(REPO, "nbdime", "diff_format.schema.json")) as f:
            dschema = json.load(f)
        resolver = jsonschema.RefResolver("file://%s/nbdime/" % REPO, schema,
                                          store={"diff_format.schema.json": dschema,
                                                 "file://%s/nbdime/diff_format.schema.json" % REPO: dschema})
        _VALIDATOR = jsonschema.Draft4Validator(schema, resolver=resolver)
    try:
        doc = json.loads(json.dumps(decisions))
    except Exception:
        return False
    return not list(_VALIDATOR.iter_errors(doc))


def run_generic(base, local, remote, name, snapshot=False, extra=None, gstrat=None, gtrans=None):
    """One run of the generic JSON merger: decide_merge + apply_decisions (gstrat: {path: strategy}, gtrans: transient
    paths)."""
    from nbdime.merging.generic import decide_merge
    from nbdime.merging.decisions import apply_decisions
    run = {"name": name}
    if extra:
        run.update(extra)
    try:
        if gstrat or gtrans:
            from nbdime.utils import Strategies
            decisions = decide_merge(base, local, remote, Strategies(gstrat or {}, transients=list(gtrans or [])))
        else:
            decisions = decide_merge(base, local, remote)
        merged = apply_decisions(base, decisions)
    except Exception as e:  # noqa
        t, w = exc_info(e)
        run["raised"] = {"type": t, "where": w, "msg": str(e)[:200]}
        return run, None, None
    run["D"] = enc_decisions(decisions)
    run["merged"] = enc(to_plain(merged))
    if snapshot:
        run["after"] = [enc(to_plain(base)), enc(to_plain(local)), enc(to_plain(remote))]
    return run, merged, decisions


_ACTIONS = None


def schema_actions():
    """the action enum of /repo's published merge_format.schema.json"""
    global _ACTIONS
    if _ACTIONS is None:
        import json
        from .common import REPO
        try:
            with open(os.path.join(REPO, "nbdime", "merge_format.schema.json")) as f:
                _ACTIONS = list(json.load(f)["definitions"]["decision"]["properties"]["action"]["enum"])
        except Exception:
            _ACTIONS = []
    return _ACTIONS


def triple_event(tid, base, local, remote, with_diffs=False, generic=False):
    if generic and with_diffs:
        from nbdime import diff
        ev = triple_event(tid, base, local, remote)
        ev["ld"] = enc_diff(diff(base, local))
        ev["rd"] = enc_diff(diff(base, remote))
        return ev
    ev = {"tid": tid, "base": enc(to_plain(base)), "local": enc(to_plain(local)),
          "remote": enc(to_plain(remote)), "runs": []}
    if schema_actions():
        ev["schemaActions"] = schema_actions()
    if with_diffs:
        from nbdime import diff_notebooks
        ev["ld"] = enc_diff(diff_notebooks(base, local))
        ev["rd"] = enc_diff(diff_notebooks(base, remote))
    return ev


MERGE_CFG = """SPECIFICATION Spec
CONSTANT LineSeps <- PyLineSeps
POSTCONDITION Accepted
CHECK_DEADLOCK FALSE
"""
