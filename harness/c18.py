"""C18 - git integration set-up is idempotent and never touches foreign settings.

spec : GitConfig.tla - each enable/disable command is a total function on the abstract configuration of a
       scope; TLC checks Idempotent, ForeignUntouched, EnableAddsOnlyOwn, DisableUnroutes on every reachable
       configuration (all initial configurations of the property's quantifier, command sequences <= MaxLen).
s->c : TLC-generated behaviours (random initial configuration + command sequence, plus systematic single-command
       edges) are replayed against real git in scratch repositories with a private HOME: the initial state is written
       with `git config --file`, each command runs through the real entry point (twice: idempotence on the files).
c->s : every executed command is one trace event (pre/post projection of git's files) validated by TLC against the
       property-level relation of GitConfigTrace.tla (OtherScopeUntouched, ForeignUntouched, EnableEstablishes,
       EnableAddsOnlyOwn, DisableUnroutes, DisableKeepsRest, Idempotent, OneLinePerDriver); equality with the canonical
       function GitConfig!Apply is recorded as model drift only.
"""
import io
import json
import multiprocessing
import os
import shutil
import subprocess
import sys

from . import common, tlc
from .common import Check

CFG = """SPECIFICATION Spec
CONSTANT MaxLen = %d
CONSTANT EMIT = %s
CONSTANT FullInit = %s
CONSTANT Cover = %s
INVARIANT TypeOK
INVARIANT Idempotent
INVARIANT ForeignUntouched
INVARIANT EnableAddsOnlyOwn
INVARIANT DisableUnroutes
VIEW View
CONSTRAINT Emit
CHECK_DEADLOCK FALSE
"""
TRACE_CFG = """SPECIFICATION TSpec
CONSTANT MaxLen = 1
CONSTANT EMIT = FALSE
CONSTANT FullInit = FALSE
CONSTANT Cover = FALSE
POSTCONDITION Accepted
CHECK_DEADLOCK FALSE
"""
FOREIGN_RULE = "*.txt text"
DLINE = "*.ipynb\tdiff=jupyternotebook"
MLINE = "*.ipynb\tmerge=jupyternotebook"


def git(args, cwd, env, check=True):
    p = subprocess.run(["git"] + args, cwd=cwd, env=env, stdout=subprocess.PIPE, stderr=subprocess.PIPE,
                       universal_newlines=True)
    if check and p.returncode != 0:
        raise RuntimeError("git %s failed: %s" % (args, p.stderr))
    return p


class Sandbox(object):
    def __init__(self, root):
        self.root = root
        self.home = os.path.join(root, "home")
        self.repo = os.path.join(root, "repo")
        os.makedirs(self.home)
        os.makedirs(self.repo)
        self.env = {k: v for k, v in os.environ.items() if not k.startswith("GIT_")}
        self.env.update({"HOME": self.home, "XDG_CONFIG_HOME": os.path.join(self.home, ".config"),
                         "GIT_CONFIG_NOSYSTEM": "1", "GIT_TERMINAL_PROMPT": "0"})
        git(["init", "-q", "."], self.repo, self.env)

    def cfile(self, scope):
        return os.path.join(self.repo, ".git", "config") if scope == "repo" else os.path.join(self.home, ".gitconfig")

    def afile(self, scope):
        return os.path.join(self.repo, ".gitattributes") if scope == "repo" else \
            os.path.join(self.home, ".config", "git", "attributes")

    def install(self, init):
        for scope in ("repo", "global"):
            x = init[scope]
            f = self.cfile(scope)

            def setv(key, val):
                git(["config", "--file", f, key, val], self.repo, self.env)
            setv("user.name", "Foreign %s" % scope)
            setv("difftool.meld.cmd", 'meld "$LOCAL" "$REMOTE"')
            if x["gui"] != "unset":
                # (at global scope the other tool's name CONTAINS "nbdime": a user's own wrapper script)
                setv("diff.guitool", "nbdime" if x["gui"] == "nbdime" else ("meld" if scope == "repo" else "my-nbdime-lab"))
            if x["mtool"] != "unset":
                setv("merge.tool", "nbdime" if x["mtool"] == "nbdime" else ("kdiff3" if scope == "repo" else "nbdime2"))
            if x["dprompt"] != "unset":
                setv("difftool.prompt", x["dprompt"])
            if x["mprompt"] != "unset":
                setv("mergetool.prompt", x["mprompt"])
            if x["afile"]:
                lines = []
                if x["aforeign"]:
                    lines.append(FOREIGN_RULE)
                if x["adiff"]:
                    lines.append(DLINE)
                if x["amerge"]:
                    lines.append(MLINE)
                os.makedirs(os.path.dirname(self.afile(scope)), exist_ok=True)
                with io.open(self.afile(scope), "w", encoding="utf8", newline="") as fh:
                    # unrelated rules without a trailing newline are the interesting case for appending;
                    # the global file has CRLF line endings (written by a Windows editor; git reads it the same)
                    nl = "\n" if scope == "repo" else "\r\n"
                    # (the unrelated rule alone: unterminated, or - every other trace, global file - saved with its CRLF)
                    unterminated = x["aforeign"] and not x["adiff"] and not (scope == "global" and getattr(self, "variant", 0) % 2)
                    text = nl.join(lines) + ("" if unterminated else nl if lines else "")
                    fh.write(text)
                # the line end the unrelated rule was saved with (None: it is the unterminated last line)
                self.foreign_end = getattr(self, "foreign_end", {})
                self.foreign_end[scope] = (nl if text.startswith(FOREIGN_RULE + nl) else None) if x["aforeign"] else None

    def project(self):
        out = {}
        for scope in ("repo", "global"):
            f = self.cfile(scope)

            def get(key):
                if not os.path.exists(f):
                    return None
                p = git(["config", "--file", f, "--get-all", key], self.repo, self.env, check=False)
                if p.returncode != 0:
                    return None
                return p.stdout.strip().split("\n")

            def tool(v):
                if v is None:
                    return "unset"
                if len(v) != 1:
                    return "multi:%s" % v
                return "nbdime" if v[0] == "nbdime" else "other"

            def prompt(v):
                if v is None:
                    return "unset"
                return v[-1] if len(v) == 1 else "multi:%s" % v
            x = {"ddrv": get("diff.jupyternotebook.command") is not None,
                 "mdrv": get("merge.jupyternotebook.driver") is not None,
                 "dtcmd": get("difftool.nbdime.cmd") is not None, "mtcmd": get("mergetool.nbdime.cmd") is not None,
                 "gui": tool(get("diff.guitool")), "mtool": tool(get("merge.tool")),
                 "dprompt": prompt(get("difftool.prompt")), "mprompt": prompt(get("mergetool.prompt")),
                 "foreign": "set" if (get("user.name") == ["Foreign %s" % scope] and get("difftool.meld.cmd") is not None)
                 else "CHANGED"}
            a = self.afile(scope)
            if os.path.exists(a):
                with io.open(a, encoding="utf8") as fh:
                    lines = [l.strip() for l in fh.read().split("\n") if l.strip()]
                nd = sum(1 for l in lines if l.startswith("*.ipynb") and "diff=jupyternotebook" in l)
                nm = sum(1 for l in lines if l.startswith("*.ipynb") and "merge=jupyternotebook" in l)
                other = [l for l in lines if not (l.startswith("*.ipynb") and "jupyternotebook" in l)]
                x.update({"afile": True, "aforeign": FOREIGN_RULE in other, "adiff": nd >= 1, "amerge": nm >= 1})
                x["_dups"] = max(nd, nm) > 1
                x["_garbled"] = [l for l in other if l != FOREIGN_RULE]
                # "keeping existing attributes content": the unrelated rule keeps the line end it was saved with
                want = getattr(self, "foreign_end", {}).get(scope)
                if want is not None:
                    with io.open(a, "rb") as fh:
                        raw = fh.read().decode("utf8")
                    if FOREIGN_RULE in raw and not raw.startswith(FOREIGN_RULE + want):
                        x["_garbled"].append("line end of the existing rule rewritten: %r" % raw[:len(FOREIGN_RULE) + 2])
            else:
                x.update({"afile": False, "aforeign": False, "adiff": False, "amerge": False, "_dups": False, "_garbled": []})
            out[scope] = x
        return out

    def routing(self):
        p = git(["check-attr", "diff", "merge", "--", "x.ipynb"], self.repo, self.env, check=False)
        return {"diff": "diff: jupyternotebook" in p.stdout, "merge": "merge: jupyternotebook" in p.stdout}


def run_command(sb, cmd):
    """the real entry points, called in this (forked worker) process living in the sandbox"""
    scope = ["--global"] if cmd["scope"] == "global" else []
    onoff = "--enable" if cmd["enable"] else "--disable"
    dflt = ["--set-default"] if cmd["dflt"] else []
    old_env, old_cwd = dict(os.environ), os.getcwd()
    os.environ.clear()
    os.environ.update(sb.env)
    os.chdir(sb.repo)
    try:
        if cmd["tool"] == "all":
            from nbdime.__main__ import main_dispatch
            rc = main_dispatch(["config-git", onoff] + scope)
        else:
            import importlib
            mod = importlib.import_module("nbdime.vcs.git." + cmd["tool"])
            rc = mod.main(["config", onoff] + scope + dflt)
        return (rc or 0), ""
    except SystemExit as e:
        return (e.code if isinstance(e.code, int) else 1), str(e.code)
    except Exception as e:  # noqa
        t, w = common.exc_info(e)
        return 1, "%s at %s: %s" % (t, w, str(e)[:200])
    finally:
        os.chdir(old_cwd)
        os.environ.clear()
        os.environ.update(old_env)


def _silence():
    """git's chatter goes to the inherited descriptors"""
    dn = os.open(os.devnull, os.O_WRONLY)
    os.dup2(dn, 1)
    os.dup2(dn, 2)


def strip(x):
    return {k: v for k, v in x.items() if not k.startswith("_")}


def replay(task):
    k, trace, root = task
    d = os.path.join(root, "t%d" % k)
    sb = Sandbox(d)
    sb.variant = k
    problems = []
    try:
        sb.install(trace["init"])
        got = sb.project()
        events = []
        if {s: strip(got[s]) for s in got} != trace["init"]:
            return [("harness", "initial state could not be installed", {"want": trace["init"], "got": got})], []
        events = []
        for j, step in enumerate(trace["steps"]):
            cmd = step["cmd"]
            pre = {s: strip(got[s]) for s in got}
            rc, err = run_command(sb, cmd)
            got = sb.project()
            name = "%s-%s-%s%s" % (cmd["tool"], "enable" if cmd["enable"] else "disable", cmd["scope"], "-default" if cmd["dflt"] else "")
            if rc != 0:
                problems.append(("command-failed:%s" % name, "exit status %s: %s" % (rc, err), {"step": j}))
                break
            # routing as git sees it must agree with the attributes lines found
            rt = sb.routing()
            exp_d = got["repo"]["adiff"] or got["global"]["adiff"]
            exp_m = got["repo"]["amerge"] or got["global"]["amerge"]
            if rt != {"diff": exp_d, "merge": exp_m}:
                problems.append(("routing:%s" % name, "git check-attr disagrees with the attributes lines", {"step": j, "git": rt}))
                break
            # run it again: nothing may change (idempotence on the real files)
            before = {f: _read(f) for f in (sb.cfile("repo"), sb.cfile("global"), sb.afile("repo"), sb.afile("global"))}
            rc2, err = run_command(sb, cmd)
            after = {f: _read(f) for f in before}
            events.append({"tid": "t%d-%d" % (k, j), "cmd": cmd, "pre": pre, "post": {s: strip(got[s]) for s in got},
                           "again": bool(rc2 != 0 or before != after),
                           "dups": bool(got["repo"]["_dups"] or got["global"]["_dups"]),
                           "garbled": bool(got["repo"]["_garbled"] or got["global"]["_garbled"]),
                           "_name": name, "_model": step["cfg"]})
            got = sb.project()
    finally:
        shutil.rmtree(d, True)
    return [(sig, desc, dict(info, trace=trace)) for sig, desc, info in problems], events


def _read(f):
    try:
        with open(f, "rb") as fh:
            return fh.read()
    except (IOError, OSError):
        return None


def run():
    chk = Check("C18")
    common.use_stubs()
    # 1. exhaustive model check of the design
    maxlen = 1 if chk.quick else 2
    r = tlc.run("GitConfig", CFG % (maxlen, "FALSE", "TRUE" if not chk.quick else "FALSE", "FALSE"), workers=common.NCPU, timeout=3000,
                name="GitConfig", xmx="8g")
    if r.invariant_violated or r.error:
        raise tlc.TLCError("GitConfig: %s\n%s" % (r.error, r.out[-2000:]))
    chk.add_model(r, "GitConfig all initial configurations x command sequences <= %d" % maxlen)
    # 2. behaviours for replay
    ntr = 160 if chk.quick else 2500
    depth = 3
    rs = tlc.run("GitConfig", CFG % (depth, "TRUE", "FALSE", "FALSE"), workers=1, timeout=1200, name="GitConfig-sim",
                 simulate="num=%d" % (ntr * 2), depth=depth + 1, seed=common.seed() + 7, check=False)
    traces = []
    seen = set()
    for t in rs.json_lines("TRACE"):
        key = json.dumps(t, sort_keys=True)
        if key not in seen:
            seen.add(key)
            traces.append(t)
    traces = traces[:ntr]
    # systematic single-command edges: one representative per (command, relevant configuration of its scope,
    # default tools of the other scope)
    re_ = tlc.run("GitConfig", CFG % (1, "TRUE", "FALSE", "TRUE"), workers=1, timeout=1200, name="GitConfig-edges", xmx="8g")
    reps = {}
    for t in re_.json_lines("TRACE"):
        c = t["steps"][0]["cmd"]
        x, y = t["init"][c["scope"]], t["init"]["global" if c["scope"] == "repo" else "repo"]
        attrs = (x["afile"], x["aforeign"], x["adiff"], x["amerge"])
        if c["tool"] == "difftool":
            key = (x["gui"], x["dprompt"], y["gui"])
        elif c["tool"] == "mergetool":
            key = (x["mtool"], x["mprompt"], y["mtool"])
        elif c["tool"] in ("diffdriver", "mergedriver"):
            key = attrs
        else:
            key = (x["gui"], x["mtool"], attrs, y["gui"] == "other", y["mtool"] == "other")
        reps.setdefault((json.dumps(c, sort_keys=True), key), t)
    edges = [reps[k] for k in sorted(reps, key=repr)]
    if chk.quick:
        rr = common.rng("c18")
        rr.shuffle(edges)
        edges = edges[:420]
    chk.notes["systematic_single_command_edges"] = len(edges)
    traces += edges
    if len(traces) < 20:
        raise tlc.TLCError("too few simulated behaviours: %d\n%s" % (len(traces), rs.out[-1500:]))
    root = tlc.subdir("c18")
    import nbdime.vcs.git.diffdriver, nbdime.vcs.git.mergedriver, nbdime.vcs.git.difftool, nbdime.vcs.git.mergetool  # noqa
    import nbdime.__main__  # noqa
    ctx = multiprocessing.get_context("fork")
    with ctx.Pool(common.NCPU, initializer=_silence) as pool:
        results = pool.map(replay, [(k, t, root) for k, t in enumerate(traces)], chunksize=4)
    events = []
    for t, (probs, evs) in zip(traces, results):
        chk.count([s["cmd"] for s in t["steps"]] + [t["init"]], nontrivial=True)
        events += evs
        for sig, desc, info in probs:
            if sig == "harness":
                raise tlc.TLCError("harness problem: %s %s" % (desc, json.dumps(info)[:500]))
            chk.violation(sig, desc, info)
    meta = {}
    for ev in events:
        meta[ev["tid"]] = (ev.pop("_name"), ev.pop("_model"), ev)
    v = common.validate("GitConfigTrace", TRACE_CFG, events, batch=400, name="c18")
    chk.add_validation(v, "GitConfigTrace on %d executed commands" % len(events))
    for tid, clauses in v.fails.items():
        name, model, ev = meta[tid]
        for c in clauses:
            chk.violation("gitconfig:%s:%s" % (c, name), "clause %s is false for %s" % (c, name),
                          {"cmd": ev["cmd"], "pre": ev["pre"], "post": ev["post"], "again": ev["again"], "dups": ev["dups"],
                           "garbled": ev["garbled"], "model_post": model})
    chk.notes["model_drift (post-state differs from GitConfig!Apply)"] = len(v.drift)
    chk.notes["behaviours_replayed"] = len(traces)
    chk.notes["commands_executed_against_real_git"] = sum(len(t["steps"]) for t in traces) * 2
    chk.sample({"init": traces[0]["init"], "commands": [s["cmd"] for s in traces[0]["steps"]]})
    chk.cov["rule"] = ("behaviours generated by TLC -simulate from spec/GitConfig.tla: random initial configuration (default tools unset / "
                       "nbdime / other, prompts, attributes file absent / unrelated rules / nbdime's lines, per scope) + %d commands; "
                       "every command executed twice against real git in a scratch repository with private HOME; distinct by trace" % depth)
    chk.assumptions += ["--system scope is out of reach (needs a writable system git prefix)",
                        "projection: git config --file <scope file>; attributes: .gitattributes / $XDG_CONFIG_HOME/git/attributes",
                        "jinja2 / jupyter_server are stubbed (harness/stubs) so that the tool entry points can be imported"]
    return chk.finish()


if __name__ == "__main__":
    common.main(run)
