"""C16 - terminal rendering of notebooks, diffs and decisions never fails.

spec : RenderMatrix.tla (TLC enumerates 64 ignore subsets x colour x colour-words x renderer x input class),
       RenderTrace.tla (contract RenderOK: Completes, EmptyDiffPrintsNothing, ShownDiffPrintsSomething with the path
       categories of NbPaths.tla, NoAnsiWithoutColor).
c->s : pretty_print_notebook / pretty_print_notebook_diff / pretty_print_merge_decisions under every configuration of
       the matrix, renderer availability controlled through a private PATH; inputs from the C01/C03 spaces (base64
       payloads, marker-like text, missing final newline, non-ASCII, every line separator).
"""
import io
import json
import multiprocessing
import os
import shutil
import sys
import copy
import nbformat

from . import common, tlc, mergedrv, concretize
from .common import Check
from .corpus import Corpus
from .encode import enc_diff, enc_text

CFG = """SPECIFICATION Spec
CONSTANT NInputs = %d
CONSTANT EMIT = TRUE
INVARIANT TypeOK
CONSTRAINT Emit
CHECK_DEADLOCK FALSE
"""
TRACE_CFG = """SPECIFICATION Spec
CONSTANT LineSeps <- PyLineSeps
POSTCONDITION Accepted
CHECK_DEADLOCK FALSE
"""
CATS = ("sources", "outputs", "attachments", "metadata", "id", "details")
INPUTS = []


class Include(object):
    pass


def has_esc(x):
    if isinstance(x, dict):
        return any(has_esc(v) for v in x.values())
    if isinstance(x, list):
        return any(has_esc(v) for v in x)
    return isinstance(x, str) and "\x1b" in x


def render(task):
    k, cfg = task
    from nbdime.prettyprint import (PrettyPrintConfig, pretty_print_notebook, pretty_print_notebook_diff,
                                    pretty_print_merge_decisions)
    kind, payload = INPUTS[cfg["input"] - 1]
    ign = cfg["ign"] if isinstance(cfg["ign"], list) else []
    inc = Include()
    for c in CATS:
        setattr(inc, c, c not in ign)
    out = io.StringIO()
    helper_kind = {"git": "git", "diff": "diff3", "builtin": "builtin"}[cfg["renderer"]]
    config = PrettyPrintConfig(out=out, include=inc, color_words=cfg["words"], use_color=cfg["color"],
                               use_git=cfg["renderer"] == "git", use_diff=cfg["renderer"] in ("git", "diff"))
    ev = {"tid": "r%d" % k, "kind": kind, "ign": ign, "color": bool(cfg["color"]), "inputHasEsc": has_esc(payload)}
    if k % 9 == 0 and (kind == "notebook" or "b" in payload or "local" in payload):
        return render_cli(ev, kind, payload, cfg, ign, helper_kind)
    try:
        with mergedrv.helper(helper_kind):
            if kind == "notebook":
                pretty_print_notebook(payload["nb"], config)
            elif kind == "diff":
                ev["d"] = enc_diff(payload["d"])
                pretty_print_notebook_diff("a.ipynb", "b.ipynb", payload["a"], payload["d"], config)
            else:
                pretty_print_merge_decisions(payload["base"], payload["D"], config)
        ev["out"] = enc_text(out.getvalue())
    except Exception as e:  # noqa
        t, w = common.exc_info(e)
        ev["raised"] = {"type": t, "where": w, "msg": str(e)[:200]}
    return ev


def render_cli(ev, kind, payload, cfg, ign, helper_kind):
    """the same rendering through the real command lines: nbdiff, nbshow, nbmerge --decisions"""
    import contextlib
    import logging
    import os
    import tempfile
    import json as _json
    import nbdime.log
    from nbdime import nbdiffapp, nbshowapp, nbmergeapp, diff_notebooks
    from nbdime.diffing.notebooks import reset_notebook_differ
    short = {"sources": "s", "outputs": "o", "attachments": "a", "metadata": "m", "id": "i", "details": "d"}
    flags = ["-" + short[c].upper() for c in CATS if c in ign]
    if not cfg["color"]:
        flags.append("--no-color")
    if cfg["renderer"] != "git":
        flags.append("--no-git")
    if cfg["renderer"] == "builtin":
        flags.append("--no-use-diff")
    ev["tid"] += "-cli"
    d = tempfile.mkdtemp(prefix="c16-", dir=tlc.scratch())
    out = io.StringIO()
    old_env = dict(os.environ)
    os.environ.update({"JUPYTER_CONFIG_DIR": d, "JUPYTER_CONFIG_PATH": d, "HOME": d})
    old_cwd = os.getcwd()
    os.chdir(d)

    def dump(name, nb):
        with io.open(os.path.join(d, name), "w", encoding="utf8") as f:
            _json.dump(nb, f)
        return os.path.join(d, name)
    try:
        with mergedrv.helper(helper_kind), contextlib.redirect_stdout(out), contextlib.redirect_stderr(io.StringIO()):
            if kind == "notebook":
                rc = nbshowapp.main(flags[:len([c for c in CATS if c in ign])] + [dump("a.ipynb", payload["nb"])])
            elif kind == "diff":
                if cfg["words"]:
                    flags.append("--color-words")
                fa, fb = dump("a.ipynb", payload["a"]), dump("b.ipynb", payload["b"])
                rc = nbdiffapp.main(flags + [fa, fb])
                import nbformat
                ev["d"] = enc_diff(diff_notebooks(nbformat.read(fa, as_version=4), nbformat.read(fb, as_version=4)))
            else:
                records = []

                class H(logging.Handler):
                    def emit(self, record):
                        records.append(record.getMessage())
                h = H()
                nbdime.log.logger.addHandler(h)
                old_level = nbdime.log.logger.level
                try:
                    fb, fl, fr = dump("b.ipynb", payload["base"]), dump("l.ipynb", payload["local"]), dump("r.ipynb", payload["remote"])
                    rc = nbmergeapp.main(["--decisions"] + flags + [fb, fl, fr])
                finally:
                    nbdime.log.logger.removeHandler(h)
                    nbdime.log.logger.setLevel(logging.CRITICAL)
                out.write("\n".join(r for r in records if r.startswith("Decisions:")))
        ev["out"] = enc_text(out.getvalue())
        if kind == "notebook":
            ev["color"] = True        # nbshow has no --no-color flag
    except SystemExit as e:
        ev["raised"] = {"type": "SystemExit", "where": "cli", "msg": str(e.code)}
    except Exception as e:  # noqa
        t, w = common.exc_info(e)
        ev["raised"] = {"type": t, "where": w, "msg": str(e)[:200]}
    finally:
        os.chdir(old_cwd)
        os.environ.clear()
        os.environ.update(old_env)
        reset_notebook_differ()
        import shutil
        shutil.rmtree(d, True)
    return ev


def build_inputs(chk, n_pairs, n_triples):
    from nbdime import diff_notebooks
    from nbdime.merging.notebooks import decide_notebook_merge
    corp = Corpus(chk)
    inputs = []
    pairs = corp.pairs(n_enum=n_pairs, n_random=n_pairs // 2, n_unrelated=max(2, n_pairs // 8), salt="c16")
    for name, a, b, info in pairs:
        inputs.append(("diff", {"a": a, "d": diff_notebooks(a, b), "b": b}))
    inputs.append(("diff", {"a": pairs[0][1], "d": []}))
    # text that is / becomes / stops being a base64 payload (the renderer snips those)
    import copy
    import nbformat
    blob, blob2 = concretize.B64A + concretize.B64B, concretize.B64B + concretize.B64C
    texts = [blob, blob + "\n", blob + "\nand a line of prose\n", "prose first\n" + blob, "just some prose\nsecond line\n", blob2]
    basenb = nbformat.v4.new_notebook()
    basenb.nbformat_minor = 4
    k = 0
    for x in texts:
        for y in texts:
            if x == y or (k % 2 and not chk.quick is False):
                k += 1
                continue
            k += 1
            a = copy.deepcopy(basenb)
            c = nbformat.v4.new_code_cell("print(payload)")
            c.pop("id", None)
            c.outputs = [nbformat.v4.new_output("stream", name="stdout", text=x),
                         nbformat.v4.new_output("display_data", data={"text/plain": x, "image/png": concretize.B64A})]
            a.cells = [c]
            b = copy.deepcopy(a)
            b.cells[0].outputs[0]["text"] = y
            b.cells[0].outputs[1]["data"]["text/plain"] = y
            if concretize.is_valid(a) and concretize.is_valid(b):
                inputs.append(("diff", {"a": a, "d": diff_notebooks(a, b)}))
    for name, a, b, info in pairs[:max(3, n_pairs // 4)]:
        inputs.append(("notebook", {"nb": b}))
    # a kernel language that the syntax highlighter knows by its plain name (language_info.name only: python, julia)
    for lang in ("python", "julia"):
        nb = copy.deepcopy(basenb)
        nb.metadata["language_info"] = {"name": lang}
        c = nbformat.v4.new_code_cell("import os\nx = [1, 2]\nprint(x)  # show\n")
        m = nbformat.v4.new_markdown_cell("# title\nsome *text* here\n")
        c.pop("id", None)
        m.pop("id", None)
        nb.cells = [c, m]
        if concretize.is_valid(nb):
            inputs.append(("notebook", {"nb": nb}))
    # free-form metadata whose keys carry the names of notebook sections (lists of plain strings under "cells", "outputs")
    a = copy.deepcopy(basenb)
    c = nbformat.v4.new_code_cell("x = 1\n")
    c.pop("id", None)
    c.metadata["linked"] = {"outputs": ["a", "b"], "cells": ["x"]}
    a.cells = [c]
    a.metadata["report"] = {"cells": ["intro", "results"], "outputs": ["fig1"], "attachments": {"k": "v"}}
    b = copy.deepcopy(a)
    b.metadata["report"] = {"cells": ["intro", "methods", "results"], "outputs": [], "attachments": {"k": "w", "n": "v"}}
    b.cells[0].metadata["linked"] = {"outputs": ["b"], "cells": ["x", "y"]}
    r2 = copy.deepcopy(a)
    r2.metadata["report"]["cells"] = ["results", "appendix"]
    r2.cells[0].metadata["linked"]["outputs"] = ["a", "c"]
    if concretize.is_valid(a) and concretize.is_valid(b) and concretize.is_valid(r2):
        inputs.append(("diff", {"a": a, "d": diff_notebooks(a, b), "b": b}))
        inputs.append(("diff", {"a": b, "d": diff_notebooks(b, a), "b": a}))
        inputs.append(("decisions", {"base": a, "D": decide_notebook_merge(a, b, r2, mergedrv.strategy_args("mergetool")),
                                     "local": b, "remote": r2}))
    triples = corp.triples(n_enum=n_triples, n_random=n_triples // 2, salt="c16")
    for name, b, l, r, info in triples:
        try:
            D = decide_notebook_merge(b, l, r, mergedrv.strategy_args("mergetool" if len(inputs) % 2 else "inline"))
        except Exception:
            continue
        inputs.append(("decisions", {"base": b, "D": D, "local": l, "remote": r}))
    # sweep: the decisions of EVERY enumerated triple whose edits touch the same / adjacent positions or the notebook as a
    # whole are rendered once (built-in renderer, colour off); the ones that raise or show escape codes go through the
    # full configuration matrix like any other input
    from . import mergefam
    for name, b, l, r, info in mergefam.sweep(chk, "render", 12 if chk.quick else 200):
        for strat in ("mergetool", "inline"):
            try:
                D = decide_notebook_merge(b, l, r, mergedrv.strategy_args(strat))
            except Exception:
                continue
            inputs.append(("decisions", {"base": b, "D": D, "local": l, "remote": r}))
    return inputs


def _render_screen(t):
    """render the diff of one enumerated pair with the built-in renderer, colour off: an exception or an escape code marks it"""
    from nbdime import diff_notebooks
    from nbdime.prettyprint import PrettyPrintConfig, pretty_print_notebook_diff
    try:
        a, b = concretize.concrete(t["base"]), concretize.concrete(t["local"])
        d = diff_notebooks(a, b)
    except Exception:
        return None
    out = io.StringIO()
    try:
        pretty_print_notebook_diff("a", "b", a, d, PrettyPrintConfig(out=out, use_color=False, use_git=False, use_diff=False))
    except Exception as e:  # noqa
        return "raised:%s" % type(e).__name__
    text = out.getvalue()
    if "\x1b[" in text and not has_esc(a) and not has_esc(b):
        return "ansi"
    if bool(d) != bool(text.strip()):
        return "empty-iff-empty"
    return None


def render_sweep(chk, cap):
    """EVERY TLC-enumerated pair is diffed and rendered once (built-in renderer, no colour); pairs a screen marks become
    inputs of the matrix and are rendered under that very configuration (the screen selects, TLC decides)."""
    from .corpus import enumerate_edits
    from nbdime import diff_notebooks
    tr = enumerate_edits(2, 0)
    with multiprocessing.get_context("fork").Pool(common.NCPU) as pool:
        why = pool.map(_render_screen, tr, chunksize=128)
    groups = {}
    for t, w in zip(tr, why):
        if w:
            groups.setdefault(w, []).append(t)
    picked, keys = [], sorted(groups)
    while len(picked) < cap and keys:
        for k in list(keys):
            if groups[k]:
                picked.append(groups[k].pop())
                if len(picked) >= cap:
                    break
            else:
                keys.remove(k)
    chk.notes["render_sweep"] = {"pairs_diffed_and_rendered": len(tr), "marked": sum(1 for w in why if w), "forwarded": len(picked)}
    out = []
    for t in picked:
        a, b = concretize.concrete(t["base"]), concretize.concrete(t["local"])
        out.append(("diff", {"a": a, "d": diff_notebooks(a, b), "b": b}))
    return out


def terminal_runs(chk):
    """The renderings as a user's shell runs them: real processes writing to their real stdout, under locales whose
    terminal encoding cannot represent everything a valid notebook may contain (non-ASCII text under an ASCII
    locale, a lone surrogate - half of an emoji cut by a truncated stream - under UTF-8)."""
    import subprocess
    import tempfile
    from .common import REPO
    d = tempfile.mkdtemp(prefix="c16t-", dir=tlc.scratch())
    a = nbformat.v4.new_notebook()
    a.cells = [nbformat.v4.new_code_cell("print('caf\u00e9 \u65e5\u672c\u8a9e \u2603')\nx = 1\n", execution_count=1,
                                         outputs=[nbformat.v4.new_output("stream", name="stdout", text="caf\u00e9 \u2603\nline two\n")]),
               nbformat.v4.new_markdown_cell("# Titre \u00e9\u00e8\n\ntexte\n")]
    b = copy.deepcopy(a)
    b.cells[0].source = "print('caf\u00e9 \u65e5\u672c\u8a9e \u2603!')\nx = 2\n"
    b.cells[0].outputs[0]["text"] = "caf\u00e9 \u2603\nline 2 \ud83d\n"          # a lone surrogate: valid JSON, valid notebook
    for name, nb in (("a.ipynb", a), ("b.ipynb", b)):
        with io.open(os.path.join(d, name), "w", encoding="utf8") as f:
            json.dump(nb, f)                                                    # ensure_ascii: escapes, so any text survives
    cmds = {"nbshow-a": ("nbdime.nbshowapp", ["a.ipynb"]), "nbshow-b": ("nbdime.nbshowapp", ["b.ipynb"]),
            "nbdiff": ("nbdime.nbdiffapp", ["a.ipynb", "b.ipynb"]),
            "nbdiff-nocolor": ("nbdime.nbdiffapp", ["--no-color", "a.ipynb", "b.ipynb"])}
    locales = {"ascii": {"LANG": "C", "LC_ALL": "C", "PYTHONUTF8": "0", "PYTHONCOERCECLOCALE": "0"},
               "utf8": {"LANG": "C.UTF-8", "LC_ALL": "C.UTF-8"}}
    n = 0
    for lname, lenv in sorted(locales.items()):
        for cname, (mod, argv) in sorted(cmds.items()):
            env = {k: v for k, v in os.environ.items() if not k.startswith(("LC_", "LANG", "PYTHONIOENCODING", "PYTHONUTF8"))}
            env.update(lenv)
            env.update({"PYTHONPATH": REPO, "HOME": d, "JUPYTER_CONFIG_DIR": d, "JUPYTER_CONFIG_PATH": d})
            p = subprocess.run([sys.executable, "-c", "import sys; from %s import main; sys.exit(main(%r))" % (mod, argv)],
                               cwd=d, env=env, stdout=subprocess.PIPE, stderr=subprocess.PIPE, timeout=120)
            n += 1
            chk.count(("terminal", lname, cname), nontrivial=True)
            if p.returncode != 0 or b"Traceback" in p.stderr or not p.stdout.strip():
                chk.violation("terminal:%s:%s" % (cname.split("-")[0], lname),
                              "%s under a %s locale: exit %s, %s" % (cname, lname, p.returncode, p.stderr[-300:].decode("ascii", "replace")),
                              {"command": cname, "locale": lenv})
            elif cname.endswith("nocolor") and b"\x1b[" in p.stdout:
                chk.violation("terminal:ansi-without-colour:%s" % lname, "ANSI escape codes with --no-color", {"command": cname})
    chk.notes["terminal_subprocess_renderings"] = n
    shutil.rmtree(d, True)


def run():
    global INPUTS
    chk = Check("C16", level="exploration")
    mergedrv.quiet_logging()
    # the user's git configuration asks for colour always (git then colours piped output too unless told --no-color):
    # "no escape codes with colour disabled" has to hold under it as well
    gitcfg = os.path.join(tlc.scratch(), "gitconfig-color-always")
    with io.open(gitcfg, "w") as f:
        f.write(u"[color]\n\tui = always\n\tdiff = always\n")
    os.environ["GIT_CONFIG_GLOBAL"] = gitcfg
    terminal_runs(chk)
    INPUTS = build_inputs(chk, 16 if chk.quick else 120, 6 if chk.quick else 60)
    swept = render_sweep(chk, 20 if chk.quick else 200)
    first_swept = len(INPUTS) + 1
    INPUTS = INPUTS + swept
    r = tlc.run("RenderMatrix", CFG % len(INPUTS), workers=1, timeout=1800, name="RenderMatrix", xmx="8g")
    if r.invariant_violated or r.error:
        raise tlc.TLCError("RenderMatrix: %s\n%s" % (r.error, r.out[-1500:]))
    chk.add_model(r, "RenderMatrix 64 x 2 x 2 x 3 x %d inputs" % len(INPUTS))
    seen, cfgs = set(), []
    for c in r.json_lines("CFG"):
        key = json.dumps(c, sort_keys=True)
        if key not in seen:
            seen.add(key)
            cfgs.append(c)
    rr = common.rng("c16")
    if chk.quick:
        rr.shuffle(cfgs)
        cfgs = cfgs[:4500]
    elif len(cfgs) > 150000:
        rr.shuffle(cfgs)
        cfgs = cfgs[:150000]
    # the configuration under which the sweep marked a pair
    cfgs += [{"ign": [], "color": False, "words": False, "renderer": "builtin", "input": first_swept + j} for j in range(len(swept))]
    ctx = multiprocessing.get_context("fork")
    with ctx.Pool(common.NCPU) as pool:
        events = pool.map(render, list(enumerate(cfgs)), chunksize=32)
    for ev, c in zip(events, cfgs):
        chk.count((c["ign"], c["color"], c["words"], c["renderer"], c["input"]), nontrivial=True)
    v = common.validate("RenderTrace", TRACE_CFG, events, batch=400, name="c16")
    chk.add_validation(v, "RenderTrace on %d renderings" % len(events))
    cfgmap = {ev["tid"]: c for ev, c in zip(events, cfgs)}
    evmap = {ev["tid"]: ev for ev in events}
    for tid, clauses in v.fails.items():
        c, ev = cfgmap[tid], evmap[tid]
        for cl in clauses:
            if cl == "Completes":
                sig = "render-raises:%s:%s:%s" % (ev["kind"], ev["raised"]["type"], ev["raised"]["where"])
                desc = "%s rendering raised %s at %s: %s" % (ev["kind"], ev["raised"]["type"], ev["raised"]["where"], ev["raised"]["msg"])
            else:
                sig = "render:%s:%s:%s:%s" % (cl, ev["kind"], c["renderer"], "words" if c["words"] else "nowords")
                desc = "clause %s false for %s rendering under %s" % (cl, ev["kind"], c)
            chk.violation(sig, desc, {"config": c, "kind": ev["kind"], "raised": ev.get("raised"),
                                      "output_head": "".join(chr(x) for x in ev.get("out", [])[:400])})
    chk.notes["inputs"] = {"diff": sum(1 for k, _ in INPUTS if k == "diff"), "notebook": sum(1 for k, _ in INPUTS if k == "notebook"),
                           "decisions": sum(1 for k, _ in INPUTS if k == "decisions")}
    chk.sample(cfgs[0])
    chk.sample(cfgs[-1])
    chk.cov["rule"] = ("configurations = initial states of spec/RenderMatrix.tla (64 ignore subsets x colour x colour-words x renderer in "
                       "{git, diff, built-in difflib} x input); quick renders a seeded sample of 4500; inputs: notebook diffs, notebooks "
                       "and decision lists from the C01/C03 corpora; distinct by configuration")
    chk.assumptions += ["renderer availability is controlled through PATH plus use_git/use_diff of PrettyPrintConfig",
                        "NoAnsiWithoutColor is only evaluated on inputs that do not themselves contain ESC characters (error tracebacks do)",
                        "ShownDiffPrintsSomething uses the path categories of spec/NbPaths.tla: an entry all of whose categories are shown"]
    return chk.finish()


if __name__ == "__main__":
    common.main(run)
