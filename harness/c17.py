"""C17 - diffing git revisions examines exactly the notebooks git reports as changed.

spec : GitRefs.tla (environment model: working tree / index / commits under edit, rm, stage, mv, commit; TLC
       enumerates every history up to the bound) and GitRefsTrace.tla (contract of changed_notebooks relative
       to git's own report: ExaminesExactlyReported, CwdPreservedAtEnd).
s->c : each TLC history is replayed with real git in a scratch repository (private HOME); the model's trees are
       compared with git's (validating the model of git); then changed_notebooks is iterated for every ref pair
       kind x cwd in {root, d, d/e} x path filter, and one trace event per iteration is validated by TLC.
"""
import io
import json
import multiprocessing
import os
import shutil
import sys
import subprocess

from . import common, tlc
from .common import Check
from .encode import enc_text

CFG = """SPECIFICATION Spec
CONSTANT MaxLen = %d
CONSTANT EMIT = TRUE
INVARIANT TypeOK
INVARIANT FreshContents
CONSTRAINT Emit
CHECK_DEADLOCK FALSE
"""
TRACE_CFG = """SPECIFICATION Spec
POSTCONDITION Accepted
CHECK_DEADLOCK FALSE
"""
PATHS = ("n1.ipynb", "d/n2.ipynb", "d/e/n3.ipynb", "d/t.txt", "m.ipynb", "d/m2.ipynb")
CWDS = ("", "d", "d/e")
# ABS:<path>: the filter is given as an absolute path (inside the repository)
FILTERS = {"": [None, ["d"], ["n1.ipynb"], ["d/n2.ipynb", "m.ipynb"], ["d/e"], ["ABS:m.ipynb"]],
           "d": [None, ["n2.ipynb"], ["e"], ["m2.ipynb", "t.txt"], ["ABS:d/n2.ipynb"], ["ABS:d"]],
           "d/e": [None, ["n3.ipynb"], ["ABS:d/e/n3.ipynb"]]}


def content(p, c):
    if p.endswith(".ipynb"):
        nb = {"cells": [{"cell_type": "markdown", "metadata": {}, "source": "notebook %s\nshared line one\nshared line two\n"
                         "shared line three\nshared line four\n" % p.split("/")[-1][:2]}],
              "metadata": {"cid": c}, "nbformat": 4, "nbformat_minor": 4}
        return json.dumps(nb, indent=1) + "\n"
    return "text file content %d\n" % c


def cid_of_text(p, text):
    if text is None:
        return 0
    try:
        if p.endswith(".ipynb"):
            return json.loads(text)["metadata"]["cid"]
        return int(text.strip().split()[-1])
    except Exception:
        return -1


class Repo(object):
    def __init__(self, root):
        self.root = os.path.realpath(root)
        self.home = self.root + "-home"
        os.makedirs(self.root)
        os.makedirs(self.home)
        self.env = {k: v for k, v in os.environ.items() if not k.startswith("GIT_")}
        self.env.update({"HOME": self.home, "XDG_CONFIG_HOME": os.path.join(self.home, ".config"), "GIT_CONFIG_NOSYSTEM": "1",
                         "GIT_AUTHOR_NAME": "a", "GIT_AUTHOR_EMAIL": "a@b", "GIT_COMMITTER_NAME": "a",
                         "GIT_COMMITTER_EMAIL": "a@b", "GIT_AUTHOR_DATE": "2020-01-01T00:00:00", "GIT_COMMITTER_DATE": "2020-01-01T00:00:00"})
        self.git(["init", "-q", "."])
        os.makedirs(os.path.join(self.root, "d", "e"))
        for p in ("n1.ipynb", "d/n2.ipynb", "d/t.txt"):
            self.write(p, 1)
        self.git(["add", "-A"])
        self.git(["commit", "-q", "-m", "init"])

    def git(self, args, cwd=None, check=True, raw=False):
        p = subprocess.run(["git"] + args, cwd=os.path.join(self.root, cwd) if cwd else self.root, env=self.env,
                           stdout=subprocess.PIPE, stderr=subprocess.PIPE)
        if check and p.returncode != 0:
            raise RuntimeError("git %s: %s" % (args, p.stderr.decode("utf8", "replace")))
        return p.stdout if raw else p.stdout.decode("utf8", "replace")

    def write(self, p, c):
        f = os.path.join(self.root, p)
        os.makedirs(os.path.dirname(f), exist_ok=True)
        with io.open(f, "w", encoding="utf8") as fh:
            fh.write(content(p, c))

    def apply(self, a):
        k = a["a"]
        if k == "edit":
            self.write(a["p"], a["c"])
        elif k == "rm":
            os.remove(os.path.join(self.root, a["p"]))
        elif k == "stage":
            if os.path.exists(os.path.join(self.root, a["p"])):
                self.git(["add", "--", a["p"]])
            else:
                self.git(["rm", "--cached", "-q", "--", a["p"]])
        elif k == "mv":
            os.makedirs(os.path.dirname(os.path.join(self.root, a["q"])), exist_ok=True)
            self.git(["mv", a["p"], a["q"]])
        elif k == "commit":
            self.git(["commit", "-q", "-m", "c"])
        os.makedirs(os.path.join(self.root, "d", "e"), exist_ok=True)

    def install_clean_filter(self):
        """a clean filter for the notebooks of ONE directory; the pattern is anchored at the repository root
        (.git/info/attributes, so the tree does not change)"""
        os.makedirs(os.path.join(self.root, ".git", "info"), exist_ok=True)
        with io.open(os.path.join(self.root, ".git", "info", "attributes"), "w", encoding="utf8") as fh:
            fh.write("d/*.ipynb filter=scrub\n")
        self.git(["config", "filter.scrub.clean", "sed -e 's/\"cid\": /\"cid\": 10/'"])
        self.filtered = True

    # ---- projection of the real repository -----------------------------------
    def show(self, spec):
        p = subprocess.run(["git", "show", spec], cwd=self.root, env=self.env, stdout=subprocess.PIPE, stderr=subprocess.PIPE)
        return p.stdout.decode("utf8", "replace") if p.returncode == 0 else None

    def tree(self, where):
        out = {}
        for p in PATHS:
            if where == "wt":
                f = os.path.join(self.root, p)
                text = io.open(f, encoding="utf8").read() if os.path.exists(f) else None
            elif where == "idx":
                text = self.show(":" + p)
            else:
                text = self.show("%s:%s" % (where, p))
            out[p] = cid_of_text(p, text)
        return out

    def side_cid(self, side, p):
        if not p:
            return 0
        if side == "WT":
            f = os.path.join(self.root, p)
            cid = cid_of_text(p, io.open(f, encoding="utf8").read() if os.path.exists(f) else None)
            if cid > 0 and getattr(self, "filtered", False) and "filter: scrub" in self.git(["check-attr", "filter", "--", p]):
                cid = int("10%d" % cid)      # what git compares is the cleaned content
            return cid
        if side == "INDEX":
            return cid_of_text(p, self.show(":" + p))
        return cid_of_text(p, self.show("%s:%s" % (side, p)))

    def report(self, a, b, cwd, flt):
        """what git itself reports as changed between a and b (raw, rename detection on)"""
        args = ["diff", "--raw", "-z", "-M", "--abbrev=40", "--no-color"]
        if b == "INDEX":
            args += ["--cached", a]
        elif b == "WT":
            if a != "INDEX":
                args += [a]
        else:
            args += [a, b]
        args += ["--"] + (list(flt) if flt else [])
        raw = self.git(args, cwd=cwd or None)
        toks = raw.split("\0")
        out = []
        k = 0
        while k < len(toks) and toks[k]:
            meta = toks[k]
            status = meta.split(" ")[-1]
            if status[0] in "RC":
                ap, bp = toks[k + 1], toks[k + 2]
                k += 3
            else:
                ap = bp = toks[k + 1]
                k += 2
                if status[0] == "A":
                    ap = ""
                elif status[0] == "D":
                    bp = ""
            out.append({"status": status, "apath": ap, "bpath": bp,
                        "ac": self.side_cid(a, ap), "bc": self.side_cid(b, bp)})
        return out


def query(repo, a, b, cwd, flt):
    """iterate nbdime's changed_notebooks from cwd; returns (yielded, cwds, raised)"""
    from nbdime.gitfiles import changed_notebooks, GitRefWorkingTree, GitRefIndex
    from nbdime.utils import EXPLICIT_MISSING_FILE
    ref = {"WT": GitRefWorkingTree, "INDEX": GitRefIndex}
    old = os.getcwd()
    os.chdir(os.path.join(repo.root, cwd))
    old_env = dict(os.environ)
    os.environ.clear()
    os.environ.update(repo.env)
    yielded, cwds, raised = [], [], None

    def rel():
        try:
            return os.path.relpath(os.path.realpath(os.getcwd()), repo.root).replace(".", "", 1) \
                if os.path.realpath(os.getcwd()) == repo.root else os.path.relpath(os.path.realpath(os.getcwd()), repo.root)
        except Exception:
            return "?"
    try:
        for fa, fb in changed_notebooks(ref.get(a, a), ref.get(b, b), list(flt) if flt else None):
            pair = []
            for f in (fa, fb):
                if f == EXPLICIT_MISSING_FILE:
                    pair.append(0)
                else:
                    try:
                        text = f.read()
                        f.close()
                        pair.append(cid_of_text("x.ipynb", text))
                    except Exception:
                        pair.append(-1)
            yielded.append(pair)
            cwds.append(rel())
        cwds.append(rel())
    except Exception as e:  # noqa
        t, w = common.exc_info(e)
        raised = {"type": t, "where": w, "msg": str(e)[:200]}
    finally:
        os.chdir(old)
        os.environ.clear()
        os.environ.update(old_env)
    return yielded, cwds, raised


def cli_output_place(repo, a, b, cwd, name):
    """run `nbdiff <ref> [<ref>] --out <relative name>` from cwd (in this process): where, relative to the repository,
    does the output file appear?  None: nowhere"""
    import contextlib
    import io
    from nbdime import nbdiffapp
    args = {("HEAD~1", "HEAD"): ["HEAD~1", "HEAD"], ("HEAD", "HEAD~1"): ["HEAD", "HEAD~1"], ("HEAD", "WT"): ["HEAD"],
            ("HEAD~1", "WT"): ["HEAD~1"]}[(a, b)]
    old, old_env, old_argv = os.getcwd(), dict(os.environ), list(sys.argv)
    os.chdir(os.path.join(repo.root, cwd))
    os.environ.clear()
    os.environ.update(repo.env)
    sys.argv = ["nbdiff"]
    try:
        with contextlib.redirect_stdout(io.StringIO()), contextlib.redirect_stderr(io.StringIO()):
            try:
                nbdiffapp.main(args + ["--out", name])
            except SystemExit:
                pass
    except Exception:
        return "raised"
    finally:
        os.chdir(old)
        os.environ.clear()
        os.environ.update(old_env)
        sys.argv = old_argv
    for dirpath, dirs, files in os.walk(repo.root):
        if ".git" in dirs:
            dirs.remove(".git")
        if name in files:
            rel = os.path.relpath(dirpath, repo.root)
            os.unlink(os.path.join(dirpath, name))
            return "" if rel == "." else rel
    return None


def replay(task):
    k, h, root = task
    d = os.path.join(root, "r%d" % k)
    repo = Repo(d)
    events, problems = [], []
    def one(a, b, cwd, flt, tag):
        label = flt
        if flt:
            flt = [os.path.join(os.path.realpath(repo.root), f[4:]) if f.startswith("ABS:") else f for f in flt]
        rep = repo.report(a, b, cwd, flt)
        yielded, cwds, raised = query(repo, a, b, cwd, flt)
        ev = {"tid": "r%d%s-%s-%s-%s-%s" % (k, tag, a, b, cwd or "root", "+".join(label) if label else "all"),
              "report": [{"apath": enc_text(e["apath"]), "bpath": enc_text(e["bpath"]), "ac": e["ac"], "bc": e["bc"]}
                         for e in rep],
              "yielded": yielded, "cwd0": enc_text(cwd), "cwds": [enc_text(c) for c in cwds],
              "_info": {"hist": h["hist"], "a": a, "b": b, "cwd": cwd, "filter": label, "at": tag or "end",
                        "report": [[e["status"], e["apath"], e["bpath"], e["ac"], e["bc"]] for e in rep],
                        "cwds": cwds}}
        if raised:
            ev["raised"] = raised
        # the command line from a sub-directory, writing to a relative file name: the file belongs where the command
        # was run (the working directory must not have moved while the notebooks are being processed)
        if (not tag and cwd and flt is None and not raised and (a, b) in (("HEAD~1", "HEAD"), ("HEAD", "WT"), ("HEAD~1", "WT"))
                and any(e["apath"].endswith(".ipynb") or e["bpath"].endswith(".ipynb") for e in rep)):
            place = cli_output_place(repo, a, b, cwd, "nbdiff-out-%d.json" % len(events))
            if place is not None:
                ev["outwhere"] = enc_text(place)
                ev["_info"]["output_written_in"] = place
            elif any(e["ac"] != e["bc"] for e in rep if e["apath"].endswith(".ipynb") or e["bpath"].endswith(".ipynb")):
                ev["outwhere"] = enc_text("<no output written>")       # git reports a changed notebook, the command diffed none
                ev["_info"]["output_written_in"] = None
        events.append(ev)
    try:
        ncommits = 1
        for j, a in enumerate(h["hist"]):
            repo.apply(a)
            if a["a"] == "commit":
                ncommits += 1
            if j < len(h["hist"]) - 1:
                # the same process asks again while the repository evolves: symbolic refs and the index move
                for (x, y) in [("HEAD", "INDEX"), ("INDEX", "WT")] + ([("HEAD~1", "HEAD")] if ncommits >= 2 else []):
                    one(x, y, "", None, "s%d" % j)
                if ncommits < 2:
                    # the command line is asked about a revision that does not exist YET (it then takes the word for a
                    # path); once the history has grown the same words name a revision
                    cli_output_place(repo, "HEAD~1", "HEAD", "", "early-%d.json" % j)
        # the model of git must agree with git
        real = {"wt": repo.tree("wt"), "idx": repo.tree("idx"), "HEAD": repo.tree("HEAD")}
        model = {"wt": h["wt"], "idx": h["idx"], "HEAD": h["commits"][-1]}
        if real != model:
            return [], [("model-of-git-disagrees", {"hist": h["hist"], "model": model, "real": real})]
        pairs = [("HEAD", "INDEX"), ("HEAD", "WT"), ("INDEX", "WT")]
        if len(h["commits"]) >= 2:
            pairs += [("HEAD~1", "HEAD"), ("HEAD", "HEAD~1"), ("HEAD~1", "WT")]
        n = 0
        for (a, b) in pairs:
            for cwd in CWDS:
                for flt in FILTERS[cwd]:
                    n += 1
                    if (k + n) % 3 and flt is not None and cwd == "":
                        continue          # thin out the root+filter combinations
                    one(a, b, cwd, flt, "")
        # a clean filter configured for the notebooks of one directory: the working-tree side git compares is the
        # cleaned content of exactly those notebooks, from whatever directory the question is asked
        repo.install_clean_filter()
        for (a, b) in [("HEAD", "WT"), ("INDEX", "WT")]:
            for cwd in CWDS:
                one(a, b, cwd, None, "f")
    finally:
        shutil.rmtree(d, True)
        shutil.rmtree(d + "-home", True)
    return events, problems


def run():
    chk = Check("C17")
    maxlen = 3 if chk.quick else 4
    r = tlc.run("GitRefs", CFG % maxlen, workers=1, timeout=1800, name="GitRefs", xmx="6g")
    if r.invariant_violated or r.error:
        raise tlc.TLCError("GitRefs: %s\n%s" % (r.error, r.out[-1500:]))
    chk.add_model(r, "GitRefs MaxLen=%d" % maxlen)
    hists = r.json_lines("REPO")
    rr = common.rng("c17")
    rr.shuffle(hists)
    # prefer histories that contain a move or a commit (renames / several commits)
    hists.sort(key=lambda h: -sum(1 for a in h["hist"] if a["a"] in ("mv", "commit")))
    n = 140 if chk.quick else 2500
    chosen = hists[:n // 2] + rr.sample(hists[n // 2:], min(n - n // 2, max(0, len(hists) - n // 2)))
    root = tlc.subdir("c17")
    import nbdime.gitfiles  # noqa
    ctx = multiprocessing.get_context("fork")
    with ctx.Pool(common.NCPU) as pool:
        results = pool.map(replay, [(k, h, root) for k, h in enumerate(chosen)], chunksize=2)
    events = []
    for evs, problems in results:
        for sig, info in problems:
            raise tlc.TLCError("the model of git disagrees with git: %s" % json.dumps(info)[:800])
        events += evs
    info = {}
    for ev in events:
        info[ev["tid"]] = ev.pop("_info")
        chk.count((info[ev["tid"]]["hist"], ev["tid"].split("-", 1)[1]), nontrivial=bool(ev["report"]))
    v = common.validate("GitRefsTrace", TRACE_CFG, events, batch=500, name="c17")
    chk.add_validation(v, "GitRefsTrace on %d iterations over %d repositories" % (len(events), len(chosen)))
    byid = {ev["tid"]: ev for ev in events}
    for tid, clauses in v.fails.items():
        i = info[tid]
        ev = byid[tid]
        for c in clauses:
            if c == "CwdPreservedDuring":
                continue
            kind = "%s/%s" % ("commit" if i["a"].startswith("HEAD") else i["a"].lower(), "commit" if i["b"].startswith("HEAD") else i["b"].lower())
            if c == "Completes":
                sig = "raises:%s:%s" % (ev["raised"]["type"], ev["raised"]["where"])
            else:
                sig = "clause:%s:%s:%s:%s" % (c, kind, "root" if not i["cwd"] else "subdir", "filter" if i["filter"] else "nofilter")
            chk.violation(sig, "clause %s false for changed_notebooks(%s, %s) from %r with filter %s; git reports %s, yielded %s, cwds %s"
                          % (c, i["a"], i["b"], i["cwd"] or ".", i["filter"], i["report"], ev["yielded"], i["cwds"]),
                          dict(i, yielded=ev["yielded"], raised=ev.get("raised")))
    chk.notes["repositories_replayed"] = len(chosen)
    chk.notes["histories_enumerated_by_tlc"] = len(hists)
    chk.sample(info[events[0]["tid"]])
    chk.sample(info[events[-1]["tid"]])
    chk.cov["rule"] = ("repositories = histories of length %d of spec/GitRefs.tla (TLC-enumerated; those with moves/commits first, the rest "
                       "sampled); per repository every ref pair kind x cwd in {root, d, d/e} x path filters; non-trivial = git reports "
                       "at least one change; distinct by (history, query)" % maxlen)
    chk.assumptions += ["the reference is git's own report (git diff --raw -z -M with the same pathspec, run from the same directory); "
                        "rename detection is git's, not modelled",
                        "content ids are read back from the yielded streams (metadata.cid)"]
    return chk.finish()


if __name__ == "__main__":
    common.main(run)
