"""FlattenDiff.tla - the step from nbdime's line based string diff to the character based diff (what patch_string applies
and the web front end receives) at design level, bound to the code: TLC checks the transcription of
diff_utils.flatten_list_of_string_diff / _overlaps / _combine_ops on every (text, line diff) of a bounded universe and
prints (text, line diff, flattened diff, patched text); each case is recomputed (1) by nbdime's function on DiffEntry
objects and (2) by nbdime.patch on the joined string (model drift)."""
from . import common, tlc

CFG = """SPECIFICATION Spec
CONSTANT MaxLines = %d
CONSTANT EMIT = %s
INVARIANT NoRaise
INVARIANT SameResult
INVARIANT Ordered
INVARIANT OnePerKind
CONSTRAINT Emit
CHECK_DEADLOCK FALSE
"""


def _seq(x):
    return x if isinstance(x, list) else []


def _text(cps):
    return "".join(chr(c) for c in _seq(cps))


def flatten_model(chk, maxlines, emit=True):
    r = tlc.run("FlattenDiff", CFG % (maxlines, "TRUE" if emit else "FALSE"), workers=common.NCPU, timeout=2400,
                name="FlattenDiff-%d" % maxlines, xmx="6g")
    if r.invariant_violated or r.error:
        raise tlc.TLCError("FlattenDiff: %s\n%s" % (r.error, "\n".join(l for l in r.out.splitlines() if not l.startswith('"'))[-2000:]))
    chk.add_model(r, "FlattenDiff MaxLines=%d (every text over two line bodies x every line diff of the universe)" % maxlines)
    if not emit:
        return
    import nbdime
    from nbdime.diff_format import op_addrange, op_removerange, op_patch
    from nbdime.diff_utils import flatten_list_of_string_diff

    def char_entry(e):
        return op_addrange(e["key"], _text(e["val"])) if e["op"] == "addrange" else op_removerange(e["key"], e["len"])

    def line_entry(e):
        if e["op"] == "addrange":
            return op_addrange(e["key"], [_text(l) for l in _seq(e["lines"])])
        if e["op"] == "removerange":
            return op_removerange(e["key"], e["len"])
        return op_patch(e["key"], [char_entry(p) for p in _seq(e["sub"])])

    def plain(d):
        return [(e.op, e.key, e.valuelist if e.op == "addrange" else e.length) for e in d]
    n = drift_flat = drift_patch = 0
    first = None
    for m in r.json_lines("FLATTEN"):
        lines = [_text(l) for l in _seq(m["t"])]
        d = [line_entry(e) for e in _seq(m["d"])]
        exp = [(e["op"], e["key"], _text(e["val"]) if e["op"] == "addrange" else e["len"]) for e in _seq(m["out"])]
        res = _text(m["res"])
        n += 1
        try:
            got = plain(flatten_list_of_string_diff(list(lines), d))
        except Exception as e:  # noqa
            got = "raised %s" % type(e).__name__
        if got != exp:
            drift_flat += 1
            first = first or {"text": lines, "line_diff": _seq(m["d"]), "model": exp, "nbdime_flatten": got}
        try:
            got2 = nbdime.patch("".join(lines), d)
        except Exception as e:  # noqa
            got2 = "raised %s" % type(e).__name__
        if got2 != res:
            drift_patch += 1
            first = first or {"text": lines, "line_diff": _seq(m["d"]), "model_result": res, "nbdime_patch": got2}
    chk.notes["FlattenDiff_vs_nbdime"] = {"cases_compared": n, "drift_flatten": drift_flat, "drift_patch_string": drift_patch,
                                          "first_drift": first}
    chk.count(("FlattenDiff", maxlines), nontrivial=False, n=n)
    return drift_flat + drift_patch, first
