"""C06 - changes to different cells merge cleanly into exactly both sets of changes.

spec : Ownership.tla - TLC enumerates every assignment of cells to a local / remote owner with a
       per-cell action and an optional non-adjacent insertion, and gives the expected merge by
       construction (invariants Disjoint, ExpectedIsBoth).  MergeTrace.tla clause DisjointExact
       (no conflict and merged = expected).
s->c : every enumerated case is concretised (base, local, remote, expected) and merged by the real merger.
       Generic JSON: disjoint keys / separated list positions, constructed exhaustively over a small family.
"""
import copy
import itertools

from . import common, mergefam, tlc, concretize
from .common import Check
from .mergefam import plan_item
from .c09 import classify
from .diffdrv import to_plain
from .encode import enc

CLAUSES = ("Completes", "DisjointExact")

OWN_CFG = """SPECIFICATION Spec
CONSTANT N = %d
CONSTANT Minor = %d
CONSTANT EMIT = TRUE
CONSTANT Tmpl = "%s"
INVARIANT Disjoint
INVARIANT ExpectedIsBoth
CONSTRAINT Emit
CHECK_DEADLOCK FALSE
"""


def enumerate_cases(chk, n, minor, tmpl="mixed"):
    r = tlc.run("Ownership", OWN_CFG % (n, minor, tmpl), workers=1, timeout=1800, name="Ownership-%d" % n, xmx="6g")
    if r.invariant_violated or r.error:
        raise tlc.TLCError("Ownership: %s\n%s" % (r.error, r.out[-1500:]))
    chk.add_model(r, "Ownership N=%d Minor=%d Tmpl=%s" % (n, minor, tmpl))
    return r.json_lines("CASE")


def nb_tasks(cases, tag):
    tasks = []
    bad = 0
    for k, c in enumerate(cases):
        nbs = [concretize.concrete(c[x]) for x in ("base", "local", "remote", "expected")]
        if not all(concretize.is_valid(nb) for nb in nbs):
            bad += 1
            continue
        b, l, r, e = nbs
        plan = [plan_item("cli", ("inline", None, None, True)), plan_item("tool", ("mergetool", None, None, True))]
        if k % 4 == 1:      # the same merge with --log-level DEBUG (the merger then also prints diffs and decisions)
            plan.append(plan_item("cli", ("inline", None, None, True), debug=True))
        info = {"owner": c["owner"], "act": c["act"], "ins": c["ins"]}
        tasks.append(("%s-%d" % (tag, k), b, l, r, plan, {"disjoint": True, "expected": enc(to_plain(e)), "_info": info}))
    return tasks, bad


# ---- generic JSON: disjoint keys / separated list positions -----------------------------------
ATOMS = [1, "x", 2.5, True, None, [1, 2], {"k": 1}]


def _list_ops(region):
    ops = []
    for i in region:
        ops.append(("replace", i, "NEW%d" % i))
        ops.append(("delete", i, None))
        ops.append(("insert", i, ["INS%d" % i]))
        ops.append(("insert", i, ["INS%da" % i, "INS%db" % i]))
        # an inserted object whose keys look like bookkeeping fields (Kaggle's _cell_guid / _uuid, a key named like a
        # field of a merge decision): content is content, whatever its keys are called
        ops.append(("insert", i, [{"_uuid": "u%d" % i, "strategy": "s", "conflict": True, "n": i}]))
    return ops


def _apply_list(lst, op):
    kind, i, v = op
    lst = copy.deepcopy(lst)
    if kind == "replace":
        lst[i] = v
    elif kind == "delete":
        del lst[i]
    else:
        lst[i:i] = v
    return lst


def generic_tasks():
    tasks = []
    base = ["a0", "a1", "a2", "a3", "a4", "a5"]
    k = 0
    for lop in _list_ops((0, 1)):
        for rop in _list_ops((4, 5)):
            local = _apply_list(base, lop)
            remote = _apply_list(base, rop)
            expected = _apply_list(_apply_list(base, rop), lop)       # higher index first
            for b, l, r, e in ((base, local, remote, expected), (base, remote, local, expected)):
                tasks.append(("gl-%d" % k, b, l, r, [plan_item("json")],
                              {"generic": True, "disjoint": True, "expected": enc(e),
                               "_info": {"local_op": lop, "remote_op": rop}}))
                k += 1
    dbase = {"a": 1, "b": "x", "c": [1, 2, 3], "d": {"k": 1, "m": 2}, "e": "line1\nline2\nline3\n"}
    dops = {
        "a": [("set", 2), ("del", None)],
        "b": [("set", "y"), ("del", None)],
        "c": [("set", [1, 2, 3, 4]), ("set", [2, 3]), ("del", None)],
        "d": [("set", {"k": 2, "m": 2}), ("set", {"m": 2}), ("del", None)],
        "e": [("set", "line1\nline2 changed\nline3\n"), ("set", "line0\nline1\nline2\nline3\n")],
        "f": [("set", "added"), ("set", {"_cell_guid": "g", "_kg_hide-input": True, "strategy": "inline", "plain": [{"_x": 1}]})],
    }

    def ap(d, key, op):
        d = copy.deepcopy(d)
        if op[0] == "set":
            d[key] = op[1]
        else:
            d.pop(key, None)
        return d
    for ka, kb in itertools.permutations(sorted(dops), 2):
        for oa in dops[ka]:
            for ob in dops[kb]:
                local, remote = ap(dbase, ka, oa), ap(dbase, kb, ob)
                expected = ap(local, kb, ob)
                tasks.append(("gd-%d" % k, dbase, local, remote, [plan_item("json")],
                              {"generic": True, "disjoint": True, "expected": enc(expected),
                               "_info": {"local": [ka, oa], "remote": [kb, ob]}}))
                k += 1
    # nested: different sub-documents of the same parent
    nbase = {"p": {"x": [1, 2, 3], "y": {"q": 1}}, "z": [["a", "b"], ["c"], ["d", "e"]]}
    l1 = copy.deepcopy(nbase); l1["p"]["x"].append(4); l1["z"][0][0] = "A"
    r1 = copy.deepcopy(nbase); r1["p"]["y"]["q"] = 2; r1["z"][2].append("f")
    e1 = copy.deepcopy(l1); e1["p"]["y"]["q"] = 2; e1["z"][2].append("f")
    tasks.append(("gn-%d" % k, nbase, l1, r1, [plan_item("json")],
                  {"generic": True, "disjoint": True, "expected": enc(e1), "_info": "nested"}))
    tasks.append(("gn-%d" % (k + 1), nbase, r1, l1, [plan_item("json")],
                  {"generic": True, "disjoint": True, "expected": enc(e1), "_info": "nested-swapped"}))
    return tasks


def run():
    chk = Check("C06")
    concretize.self_check()
    r = common.rng("c06")
    tasks = []
    discarded = 0
    plan = [(2, 5, None, "mixed"), (2, 4, None, "mixed"), (3, 5, 500 if chk.quick else None, "mixed"),
            (3, 2, 200 if chk.quick else None, "mixed"),
            (2, 4, None, "similar"), (3, 4, 300 if chk.quick else None, "similar"), (3, 5, 150 if chk.quick else None, "similar")]
    if not chk.quick:
        plan.append((4, 5, 12000, "mixed"))
        plan.append((4, 4, 3000, "mixed"))
        plan.append((4, 4, 3000, "similar"))
    total = 0
    for n, minor, sample, tmpl in plan:
        cases = enumerate_cases(chk, n, minor, tmpl)
        total += len(cases)
        if sample is not None and sample < len(cases):
            r.shuffle(cases)
            cases = cases[:sample]
        t, bad = nb_tasks(cases, "o%d-%d%s" % (n, minor, tmpl[0]))
        tasks += t
        discarded += bad
    gtasks = generic_tasks()
    info = {t[0]: t[5].pop("_info") for t in tasks + gtasks}
    events = mergefam.generate(tasks + gtasks)
    for tid, names in events.meta:
        chk.count((tid, info[tid]), nontrivial=True, n=len(names))
    v = mergefam.validate(chk, events, "MergeTrace on %d ownership cases + %d generic disjoint cases"
                          % (len(tasks), len(gtasks)), batch=80)
    idx = mergefam.index_runs(events)
    for key, cl in v.fails.items():
        ev, run_ = idx[key]
        classify(chk, ev, run_, cl, CLAUSES, info[ev["tid"]])
    chk.notes["ownership_cases_enumerated_by_tlc"] = total
    chk.notes["discarded_invalid"] = discarded
    chk.cov["exhaustive"] = False
    chk.sample({"ownership_case": tasks[0][0], "assignment": info[tasks[0][0]]})
    chk.sample({"generic_case": gtasks[0][0], "ops": info[gtasks[0][0]]})
    chk.cov["rule"] = ("cases = initial states of spec/Ownership.tla (owner/action per cell, one optional non-adjacent insertion), "
                       "N=2 exhaustive, N=3 exhaustive in thorough / sampled in quick, N=4 sampled; each merged under the default "
                       "strategy and mergetool; generic JSON: all combinations of an op on list positions {0,1} vs {4,5} and on "
                       "different object keys, both role orders; distinct by case assignment")
    chk.assumptions += ["expected = base with every owner's action applied, computed by the specification (Ownership!CellsFor(\"M\"))",
                        "harness/concretize.py maps abstract cells to content whose variants keep cells alignable (src1/src2 stay similar)"]
    return chk.finish()


if __name__ == "__main__":
    common.main(run)
