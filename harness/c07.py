"""C07 - default merge never drops or invents source text; real conflicts are flagged.

spec : MergeContract.tla LinesSurvive / LinesProvenance / IsMarker, MergeTrace.tla clause SameLineFlagged.
c->s : default strategy under each text-merge helper (git merge-file, diff3, built-in) on the C03 triples;
       a dedicated family where both sides rewrite the same line(s) of an id-aligned cell differently.
"""
import copy

import nbformat

from . import common, mergefam, concretize, tlc
from .common import Check
from .corpus import Corpus
from .mergefam import plan_item
from .c09 import classify
from .encode import enc_text

CLAUSES = ("Completes", "LinesSurvive", "LinesProvenance", "SameLineFlagged")
HELPERS = ("git", "diff3", "builtin")
DEFAULT = ("inline", None, None, True)


def same_line_cases(r, n):
    """bases with id-aligned cells; both sides rewrite the same line(s) differently."""
    out = []
    fams = [1, 2, 3, 4, 5, 7, 8, 11, 12]
    k = 0
    while len(out) < n:
        ncells = 1 + k % 3
        cells = []
        for i in range(ncells):
            fam = fams[(k + i) % len(fams)]
            cells.append({"cid": i + 1, "fam": fam, "kind": "code" if fam in (1, 3, 7, 11, 12) else "markdown",
                          "src": 0, "outs": 0, "md": 0, "ec": 0, "att": 0})
        ab = {"minor": 5, "nbmd": k % 3, "cells": cells}
        base = concretize.concrete(ab)
        tgt = k % ncells
        lines = base.cells[tgt].source.splitlines(True)
        if len(lines) < 3:
            k += 1
            continue
        mode = (k // 3) % 6
        idxs = {0: [len(lines) // 2], 1: [0], 2: [len(lines) - 1], 3: [1, 2], 4: [len(lines) // 2],
                5: [0, len(lines) - 1] if len(lines) >= 7 else [0]}[mode]      # two separate conflict hunks
        local, remote = copy.deepcopy(base), copy.deepcopy(base)
        ll, rl = list(lines), list(lines)
        lvars, rvars = [], []
        for i in idxs:
            end = lines[i][len(lines[i].rstrip("\r\n")):]
            lv = "local rewrite %d of line %d" % (k, i)
            rv = "remote rewrite %d of line %d" % (k, i)
            ll[i] = lv + end
            rl[i] = rv + end
            lvars.append(lv)
            rvars.append(rv)
        if mode == 4:        # one side also touches another cell's metadata / adds a line elsewhere
            rl.insert(0, "# remote also adds a header\n")
        local.cells[tgt].source = "".join(ll)
        remote.cells[tgt].source = "".join(rl)
        if all(concretize.is_valid(x) for x in (base, local, remote)):
            out.append(("flag-%d" % k, base, local, remote,
                        {"mode": mode, "cell": tgt, "lines": idxs, "variants": lvars + rvars}))
        k += 1
    return out


KF_CFG = """SPECIFICATION Spec
CONSTANT LineSeps <- PyLineSeps
CONSTANT MaxLen = 2
CONSTANT EMIT = FALSE
CONSTANT Kind = "strings"
CONSTANT NIns = 2
CONSTANT NPatch = "all"
CONSTANT StratMode = "none"
CONSTANT NAtoms = 3
INVARIANT %s
CHECK_DEADLOCK FALSE
"""


def design_level_lines(chk):
    """The line based string merge as a TLA+ transcription (MergeAlgo.tla, kind strings): TLC checks line provenance at
    design level for every pair of differ-like diffs of every base of <= 2 lines.  It holds modulo the recorded glue
    class (StrProvenanceModGlue) - and TLC's counterexample to the unrestricted invariant is that finding."""
    r = tlc.run("MergeAlgo", KF_CFG % "StrProvenanceModGlue", workers=common.NCPU, timeout=1800, name="MergeAlgo-strings-prov", xmx="8g")
    if r.invariant_violated or r.error:
        raise tlc.TLCError("MergeAlgo strings: %s\n%s" % (r.error, r.out[-1500:]))
    chk.add_model(r, "MergeAlgo strings MaxLen=2: StrProvenanceModGlue on every pair of line diffs")
    r2 = tlc.run("MergeAlgo", KF_CFG % "StrProvenance", workers=1, timeout=1800, name="MergeAlgo-strings-kf", xmx="8g", check=False)
    chk.notes["design_level_reproduction_of_KF-C07-1"] = (
        "TLC finds a counterexample to StrProvenance in the transcribed line based merge (the glued line)"
        if r2.invariant_violated else "no counterexample found")


def run():
    chk = Check("C07")
    design_level_lines(chk)
    # the built-in renderer of a conflicted source (no git, no diff3, or text they refuse): survival / provenance of
    # lines on the transcription (MergeRender.tla), and the transcription against nbdime's renderer
    from . import render
    render.merge_render_model(chk, 3)
    corp = Corpus(chk)
    r = common.rng("c07")
    if chk.quick:
        triples = corp.triples(n_enum=560, n_random=160, salt="c07") + mergefam.sweep(chk, "lines", 100)
        flagged = same_line_cases(r, 96)
    else:
        triples = corp.triples(n_enum=9000, n_random=4000, random_maxedits=5, salt="c07") + mergefam.sweep(chk, "lines", 1000, positions=("same", "adjacent", "apart"))
        flagged = same_line_cases(r, 900)
    tasks = []
    for k, (name, b, l, rr, info) in enumerate(triples):
        hs = HELPERS if k % 4 == 0 or not chk.quick else (HELPERS[k % 3],)
        plan = [plan_item("cli", DEFAULT, h, extra={"lines": True}) for h in hs]
        tasks.append((name, b, l, rr, plan, {}))
    for name, b, l, rr, info in flagged:
        plan = [plan_item("cli", DEFAULT, h, extra={"lines": True}) for h in HELPERS]
        tasks.append((name, b, l, rr, plan, {"flag": True, "variants": [enc_text(v) for v in info["variants"]]}))
    info = {t[0]: t[4] for t in triples}
    info.update({t[0]: t[4] for t in flagged})
    events = mergefam.generate(tasks)
    for tid, names in events.meta:
        chk.count((tid, info[tid].get("abstract", info[tid])), nontrivial=True, n=len(names))
    v = mergefam.validate(chk, events, "MergeTrace on %d triples + %d same-line cases" % (len(triples), len(flagged)))
    idx = mergefam.index_runs(events)
    for key, cl in v.fails.items():
        ev, run_ = idx[key]
        classify(chk, ev, run_, cl, CLAUSES, info[ev["tid"]].get("script", info[ev["tid"]]))
    chk.sample({"same_line_case": flagged[0][0], "detail": flagged[0][4]})
    chk.sample({"triple": triples[0][0], "edit_script": triples[0][4].get("script")})
    chk.cov["rule"] = ("C03 triples (TLC-enumerated + random) merged with the default strategy under git merge-file / diff3 / built-in; "
                       "same-line family: 1-3 id-aligned cells, both sides rewrite the same line(s) (middle, first, last, two lines, "
                       "plus an unrelated addition) differently; distinct by triple")
    chk.assumptions += ["a source line = a piece between Python line separators with terminators stripped; markers are lines starting "
                        "with <<<<<<<, =======, >>>>>>>, ||||||| or the red <span> cell marker"]
    return chk.finish()


if __name__ == "__main__":
    common.main(run)
