"""C09 - merge decisions losslessly describe the merge and follow the published schema.

spec : MergeFormat.tla (ApplyDecisions, ResolveAction, AllSide, OrderedOK, DecisionSchemaOK),
       MergeTrace.tla clauses AppliesToMerged, AllLocalIsLocal, AllRemoteIsRemote, OrderedOK,
       SamePathContiguous, DecisionSchemaOK, DecisionPlainJSON; MergeModel.tla at design level.
c->s : merge_notebooks on TLC-enumerated + random triples, strategy 'mergetool' (all clauses) and
       CLI strategies (apply/schema/order clauses); the specification's own applier decides.
"""
from . import common, mergefam
from .common import Check
from .corpus import Corpus
from .mergefam import plan_item

CLAUSES = ("Completes", "AppliesToMerged", "AllLocalIsLocal", "AllRemoteIsRemote", "OrderedOK",
           "SamePathContiguous", "DecisionSchemaOK", "PublishedSchemaOK", "DecisionPlainJSON")


def classify(chk, ev, run, clauses, clause_set, info=None):
    cl = [c for c in clauses if c in clause_set]
    if not cl:
        return
    rep = mergefam.replay_obj(ev, run, clauses, info)
    strat = run["name"].split("|")[1] if "|" in run["name"] else run["name"]
    for c in cl:
        if c == "Completes":
            chk.violation("merge-raises:%s:%s" % (run["raised"]["type"], run["raised"]["where"]),
                          "merge raised %(type)s at %(where)s: %(msg)s" % run["raised"], rep)
        elif c == "LinesProvenance" and "LinesProvenanceModGlue" not in clauses:
            chk.violation("provenance:line-glued-to-unterminated-last-base-line",
                          "merged source has a line made of the base's unterminated last line glued to an appended line "
                          "(strategy %s)" % strat, rep)
        else:
            chk.violation("clause:%s" % c, "clause %s is false (strategy %s)" % (c, strat), rep)


def make_tasks(triples, r, n_cli, all_cli_for=0):
    cli = mergefam.cli_strategy_tuples()
    tasks = []
    for k, (name, b, l, rr, info) in enumerate(triples):
        plan = [plan_item("tool", ("mergetool", None, None, True), extra={"allside": True}),
                plan_item("cli", ("inline", None, None, True))]
        picks = cli if k < all_cli_for else r.sample(cli, n_cli)
        for s in picks:
            if tuple(s) != ("inline", None, None, True):
                plan.append(plan_item("cli", s))
        tasks.append((name, b, l, rr, plan, {}))
    return tasks


def run():
    chk = Check("C09")
    corp = Corpus(chk)
    r = common.rng("c09")
    if chk.quick:
        triples = corp.triples(n_enum=600, n_random=140, salt="c09") + mergefam.sweep(chk, "lossless", 100)
        tasks = make_tasks(triples, r, n_cli=3, all_cli_for=4)
    else:
        triples = corp.triples(n_enum=6000, n_random=2500, random_maxedits=5, salt="c09") + mergefam.sweep(chk, "lossless", 1000, positions=("same", "adjacent", "apart"))
        tasks = make_tasks(triples, r, n_cli=6, all_cli_for=60)
    events = mergefam.generate(tasks)
    info = {t[0]: t[4] for t in triples}
    for tid, names in events.meta:
        chk.count((info[tid].get("abstract"),), nontrivial=True, n=len(names))
    v = mergefam.validate(chk, events, "MergeTrace on %d triples" % len(events))
    idx = mergefam.index_runs(events)
    for key, clauses in v.fails.items():
        ev, run_ = idx[key]
        classify(chk, ev, run_, clauses, CLAUSES, info[ev["tid"]].get("script"))
    # ---- the decision format itself: every way of cutting a well-formed diff into decisions (DecisionModel.tla) --------
    from . import decmodel
    dm = decmodel.run_models(chk)
    dm_n = {}
    for kind, cases in dm.items():
        dm_n[kind] = decmodel.replay_py(chk, cases, kind)
        chk.cov["traces_validated_against_impl"] += dm_n[kind]
    chk.notes["DecisionModel_vs_apply_decisions"] = {"cases_replayed": dm_n, "rule": "every TLC-generated (base, decision list, "
        "expected document) applied by nbdime.merging.decisions.apply_decisions; the result must equal the specification's"}
    for name, b, l, rr, inf in triples[:2]:
        chk.sample({"triple": name, "edit_script": inf.get("script"), "abstract": inf.get("abstract")})
    chk.cov["rule"] = ("triples: every (base, local, remote) reachable in spec/NotebookEdits.tla with one edit action per "
                       "side (TLC-enumerated; stratified seeded sample in quick) plus random walks; each merged under "
                       "'mergetool', the default and sampled/all CLI strategies; distinct by abstract triple")
    chk.cov["rule"] += ("; decision lists: every case of spec/DecisionModel.tla (a well-formed diff of a bounded sub-document cut "
                        "into decisions in 11 styles x 2 orders x extras; objects: a fate per key incl. clear / remove / take_max / base)")
    chk.assumptions += [
        "spec/MergeFormat.tla is the documented meaning of the decision format (docs/source/merging.rst); "
        "all-local/all-remote relabel every decision's action and read a null diff as empty",
        "harness/encode.py encodes decisions faithfully; tuples in common_path are accepted as JSON arrays",
    ]
    return chk.finish()


if __name__ == "__main__":
    common.main(run)
