"""MergeRender.tla - the built-in text-merge renderer (what the inline source strategy falls back on without git / diff3,
or when the external tool refuses the text) at design level, bound to the code: TLC checks the transcription of
prettyprint.builtin_merge_render / format_merge_render_lines on every pair of texts of a bounded universe (markers in
order, every line of either side survives, nothing invented, no marker glued to text) and prints (local, remote, text,
status); each case is recomputed by nbdime's renderer and compared (model drift)."""
from . import common, tlc

CFG = """SPECIFICATION Spec
CONSTANT MaxLines = %d
CONSTANT EMIT = TRUE
INVARIANT EqualIsClean
INVARIANT MarkersInOrder
INVARIANT Survive
INVARIANT Provenance
INVARIANT LocalFirst
CONSTRAINT Emit
CHECK_DEADLOCK FALSE
"""


def merge_render_model(chk, maxlines):
    r = tlc.run("MergeRender", CFG % maxlines, workers=common.NCPU, timeout=1800, name="MergeRender-%d" % maxlines, xmx="4g")
    if r.invariant_violated or r.error:
        raise tlc.TLCError("MergeRender: %s\n%s" % (r.error, "\n".join(l for l in r.out.splitlines() if not l.startswith('"'))[-2000:]))
    chk.add_model(r, "MergeRender MaxLines=%d (every pair of texts over three line bodies, last line with / without its end)" % maxlines)
    from nbdime.prettyprint import builtin_merge_render

    def text(cps):
        return "".join(chr(c) for c in (cps if isinstance(cps, list) else []))
    n = drift = 0
    first = None
    for m in r.json_lines("RENDER"):
        l, rr, exp = text(m["l"]), text(m["r"]), (text(m["text"]), m["status"])
        n += 1
        try:
            got = builtin_merge_render("", l, rr)
            got = (got[0], got[1])
        except Exception as e:  # noqa
            got = ("raised %s" % type(e).__name__, None)
        if got != exp:
            drift += 1
            first = first or {"local": l, "remote": rr, "model": exp, "nbdime": got}
    chk.notes["MergeRender_vs_nbdime"] = {"pairs_compared": n, "model_drift": drift, "first_drift": first}
    chk.count(("MergeRender", maxlines), nontrivial=False, n=n)
