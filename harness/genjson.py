"""Random generic JSON documents beyond the TLC-enumerated universe (C02/C05/C06/C11):
arbitrary nesting, heterogeneous arrays, repeated elements, every value type,
strings containing every Unicode line separator Python's splitlines knows."""

LINESEPS = ["\n", "\r", "\r\n", "\v", "\f", "\x1c", "\x1d", "\x1e", "\x85", " ", " "]
WORDS = ["a", "b", "ab", "x = 1", "print(x)", "é", "日本", " ", "", "0x7f3a2b1c9d8e", "<<<<<<< local"]
KEYS = ["a", "b", "c", "key", "0", "*", "text/plain", ""]
ATOMS = [0, 1, 2, -1, 1.0, 0.0, 2.5, True, False, None, 10**20, "x", "", "1"]


def rand_string(r, maxtok=6):
    n = r.randint(0, maxtok)
    toks = []
    for _ in range(n):
        if r.random() < 0.45:
            toks.append(r.choice(LINESEPS))
        else:
            toks.append(r.choice(WORDS))
    return "".join(toks)


def rand_atom(r):
    if r.random() < 0.25:
        return rand_string(r, 4)
    return r.choice(ATOMS)


def rand_value(r, depth):
    k = r.random()
    if depth <= 0 or k < 0.35:
        return rand_atom(r)
    if k < 0.7:
        return rand_list(r, depth - 1)
    return rand_obj(r, depth - 1)


def rand_list(r, depth, maxlen=5):
    n = r.randint(0, maxlen)
    items = [rand_value(r, depth) for _ in range(n)]
    # repeated elements
    if items and r.random() < 0.4:
        for _ in range(r.randint(1, 2)):
            items.insert(r.randint(0, len(items)), _copy(r.choice(items)))
    return items


def rand_obj(r, depth, maxkeys=4):
    n = r.randint(0, maxkeys)
    return {r.choice(KEYS): rand_value(r, depth) for _ in range(n)}


def _copy(x):
    import copy
    return copy.deepcopy(x)


def mutate(r, x, depth=3):
    """A random edit of x keeping the container type (related pairs)."""
    x = _copy(x)
    if isinstance(x, list):
        for _ in range(r.randint(1, 3)):
            k = r.random()
            if k < 0.3 or not x:
                x.insert(r.randint(0, len(x)), rand_value(r, depth - 1))
            elif k < 0.5:
                del x[r.randrange(len(x))]
            elif k < 0.6:
                i = r.randrange(len(x))
                x.insert(r.randint(0, len(x)), _copy(x[i]))
            elif k < 0.7:
                i = r.randrange(len(x))
                x.insert(r.randint(0, len(x) - 1), x.pop(i))
            else:
                i = r.randrange(len(x))
                x[i] = mutate(r, x[i], depth - 1) if isinstance(x[i], (list, dict, str)) and r.random() < 0.8 \
                    else rand_value(r, depth - 1)
        return x
    if isinstance(x, dict):
        for _ in range(r.randint(1, 3)):
            k = r.random()
            if k < 0.3 or not x:
                x[r.choice(KEYS)] = rand_value(r, depth - 1)
            elif k < 0.5:
                del x[r.choice(sorted(x))]
            else:
                key = r.choice(sorted(x))
                x[key] = mutate(r, x[key], depth - 1) if isinstance(x[key], (list, dict, str)) and r.random() < 0.8 \
                    else rand_value(r, depth - 1)
        return x
    if isinstance(x, str):
        lines = x.splitlines(True)
        for _ in range(r.randint(1, 2)):
            k = r.random()
            if k < 0.35 or not lines:
                lines.insert(r.randint(0, len(lines)), r.choice(WORDS) + r.choice(LINESEPS + [""]))
            elif k < 0.55:
                del lines[r.randrange(len(lines))]
            else:
                i = r.randrange(len(lines))
                ln = lines[i]
                p = r.randint(0, len(ln))
                lines[i] = ln[:p] + r.choice(WORDS + LINESEPS) + ln[p + r.randint(0, 2):]
        return "".join(lines)
    return rand_value(r, 1)


def rand_pair(r, kind=None, depth=3):
    kind = kind or r.choice(["list", "obj", "str"])
    if kind == "list":
        a = rand_list(r, depth)
        b = mutate(r, a, depth) if r.random() < 0.7 else rand_list(r, depth)
    elif kind == "obj":
        a = rand_obj(r, depth)
        b = mutate(r, a, depth) if r.random() < 0.7 else rand_obj(r, depth)
    else:
        a = rand_string(r, 8)
        b = mutate(r, a) if r.random() < 0.7 else rand_string(r, 8)
    return a, b


def rand_triple(r, kind=None, depth=3):
    kind = kind or r.choice(["list", "obj", "str"])
    if kind == "list":
        base = rand_list(r, depth)
    elif kind == "obj":
        base = rand_obj(r, depth)
    else:
        base = rand_string(r, 8)
    return base, mutate(r, base, depth), mutate(r, base, depth)
