"""./check <ID> --replay <file>: re-run the case stored in a replay file against the current tree.

Diff-shaped cases (a, b) are diffed again and validated with DiffTrace; merge-shaped cases (base, local,
remote, run) are merged again under the recorded strategy/helper and validated with MergeTrace. For the other
properties the whole quick check is re-run and the stored signature is looked for.
exit 0: the violation does not reproduce; exit 1: it does (VIOLATION line printed); exit 2: cannot replay."""
import json
import os
import subprocess
import sys

from . import common, mergedrv


def main():
    prop, path = sys.argv[1], sys.argv[2]
    with open(path) as f:
        rep = json.load(f)
    case = rep.get("case") or {}
    sig = rep.get("signature")
    print("replaying %s: %s" % (sig, (rep.get("description") or "")[:200]))
    if isinstance(case, dict) and "a" in case and "b" in case and "base" not in case:
        return replay_diff(prop, case, sig, path)
    if isinstance(case, dict) and all(k in case for k in ("base", "local", "remote")) and "run" in case:
        return replay_merge(prop, case, sig, path)
    p = subprocess.run(["./check", prop, "--tier", "quick"], cwd=common.VERIF, stdout=subprocess.PIPE, stderr=subprocess.STDOUT,
                       universal_newlines=True)
    again = [l for l in p.stdout.splitlines() if l.startswith("VIOLATION")]
    for l in again:
        try:
            with open(l.split("replay=")[1].strip()) as f:
                if json.load(f).get("signature") == sig:
                    print("VIOLATION property=%s replay=%s" % (prop, path))
                    return 1
        except Exception:
            pass
    print("signature not reproduced by the quick check (%d other violation(s))" % len(again))
    return 0


def replay_diff(prop, case, sig, path):
    from .diffdrv import diff_event
    a, b = case["a"], case["b"]
    if isinstance(a, dict) and "cells" in a:
        import nbformat
        from nbdime import diff_notebooks, patch_notebook
        a, b = nbformat.from_dict(a), nbformat.from_dict(b)
        ev, d = diff_event("replay", a, b, diff_notebooks, patch_notebook)
    else:
        from nbdime.diffing.generic import diff
        from nbdime.patching import patch
        ev, d = diff_event("replay", a, b, diff, patch)
    v = common.validate("DiffTrace", common.diff_trace_cfg(), [ev], name="replay")
    failed = v.fails.get("replay", [])
    print("failed clauses now: %s" % failed)
    want = case.get("failed_clauses") or []
    if any(c in failed for c in want) or ("raised" in ev and "Completes" in want):
        print("VIOLATION property=%s replay=%s" % (prop, path))
        return 1
    return 0


def replay_merge(prop, case, sig, path):
    import nbformat
    from . import mergefam
    kind, strat, hl = (case["run"].split("|") + ["all"])[:3]
    m, i, o, t = strat.split("/")
    s = (m, None if i == "-" else i, None if o == "-" else o, t == "T")
    if isinstance(case["base"], dict) and "cells" in case["base"]:
        nbs = [nbformat.from_dict(case[k]) for k in ("base", "local", "remote")]
        opts = {}
    else:
        nbs = [case[k] for k in ("base", "local", "remote")]
        opts = {"generic": True}
    extra = {"lines": True} if prop in ("C07", "C10") else {}
    if kind == "tool":
        extra["allside"] = True
    plan = [mergefam.plan_item(kind if kind in ("tool", "swapped") else "cli", s, hl, sym=(prop == "C05"), extra=extra)]
    if prop == "C05":
        opts["with_diffs"] = True
    events = mergefam.generate([("replay", nbs[0], nbs[1], nbs[2], plan, opts)])
    v = common.validate("MergeTrace", mergedrv.MERGE_CFG, events, name="replay")
    failed = [c for cl in v.fails.values() for c in cl]
    print("failed clauses now: %s" % failed)
    want = case.get("failed_clauses") or []
    if any(c in failed for c in want):
        print("VIOLATION property=%s replay=%s" % (prop, path))
        return 1
    return 0


if __name__ == "__main__":
    common.main(main)
