"""Shared machinery of the merge-family checks (C03, C04, C05, C06, C07, C09, C10, C11):
parallel generation of merge events and validation with MergeTrace.tla."""
import json
import multiprocessing
import os

from . import common, tlc, mergedrv
from .mergedrv import (strategy_args, strategy_name, all_cli_strategies, mergetool_args, helper,
                       run_merge, triple_event)

_POOL_TASK = None


def _worker(task):
    """task = (tid, base, local, remote, plan, opts) -> event dict (JSON-able)."""
    tid, base, local, remote, plan, opts = task
    mergedrv.quiet_logging()
    ev = triple_event(tid, base, local, remote, with_diffs=opts.get("with_diffs", False))
    for k in ("law", "expected", "disjoint", "flag", "variants"):
        if k in opts:
            ev[k] = opts[k]
    tool_dec = None
    for item in plan:
        kind = item["kind"]
        hl = item.get("helper", "all")
        args = strategy_args(*item["strat"])
        name = "%s|%s|%s" % (kind, strategy_name(args), hl)
        extra = dict(item.get("extra", {}))
        with helper(hl):
            if kind == "swapped":
                run, merged, dec = run_merge(base, remote, local, args, name, extra=extra,
                                             snapshot=opts.get("snapshot", False))
                run["swapped"] = True
            else:
                run, merged, dec = run_merge(base, local, remote, args, name, extra=extra,
                                             snapshot=opts.get("snapshot", False))
            if item.get("sym") and "raised" not in run:
                sw, _, _ = run_merge(base, remote, local, args, name + "|sw", validate=False)
                run["sw"] = {k: sw[k] for k in ("raised", "D", "merged") if k in sw}
        if kind == "tool" and "raised" not in run:
            ev["toolD"] = run["D"]
        ev["runs"].append(run)
    return ev


def generate(tasks, jobs=None):
    """Run the merges of all tasks in a process pool; returns list of events."""
    jobs = jobs or common.NCPU
    if len(tasks) < 8 or jobs == 1:
        return [_worker(t) for t in tasks]
    ctx = multiprocessing.get_context("fork")
    with ctx.Pool(jobs) as pool:
        return pool.map(_worker, tasks, chunksize=max(1, len(tasks) // (jobs * 8)))


def validate(chk, events, label, batch=40):
    v = common.validate("MergeTrace", mergedrv.MERGE_CFG, events, batch=batch, name="merge-" + chk.prop)
    chk.add_validation(v, label)
    nruns = sum(len(e["runs"]) for e in events)
    chk.notes.setdefault("merge_runs_validated", 0)
    chk.notes["merge_runs_validated"] += nruns
    return v


def index_runs(events):
    idx = {}
    for ev in events:
        for run in ev["runs"]:
            idx[(ev["tid"], run["name"])] = (ev, run)
    return idx


def replay_obj(ev, run, clauses, info=None):
    from .c02 import safe_dec
    obj = {"tid": ev["tid"], "run": run["name"], "failed_clauses": clauses,
           "base": safe_dec(ev["base"]), "local": safe_dec(ev["local"]), "remote": safe_dec(ev["remote"])}
    if "raised" in run:
        obj["raised"] = run["raised"]
    if "invalid_msg" in run:
        obj["invalid_msg"] = run["invalid_msg"]
    if info:
        obj["info"] = info
    return obj


def plan_item(kind, strat=("inline", None, None, True), helper_kind="all", sym=False, extra=None):
    d = {"kind": kind, "strat": list(strat), "helper": helper_kind}
    if sym:
        d["sym"] = True
    if extra:
        d["extra"] = extra
    return d


def cli_strategy_tuples():
    return [(a.merge_strategy, a.input_strategy, a.output_strategy, a.ignore_transients)
            for a in all_cli_strategies()]
