"""Shared machinery of the merge-family checks (C03, C04, C05, C06, C07, C09, C10, C11):
parallel generation of merge events and validation with MergeTrace.tla."""
import json
import multiprocessing
import os

from . import common, tlc, mergedrv
from .mergedrv import (strategy_args, strategy_name, all_cli_strategies, mergetool_args, helper,
                       run_merge, triple_event)

_POOL_TASK = None


def _worker(task):
    """task = (tid, base, local, remote, plan, opts) -> event dict (JSON-able)."""
    tid, base, local, remote, plan, opts = task
    mergedrv.quiet_logging()
    generic = opts.get("generic", False)
    ev = triple_event(tid, base, local, remote, with_diffs=opts.get("with_diffs", False), generic=generic)
    for k in ("law", "expected", "disjoint", "flag", "variants"):
        if k in opts:
            ev[k] = opts[k]
    io_only = False
    for item in plan:
        kind = item["kind"]
        hl = item.get("helper", "all")
        args = strategy_args(*item["strat"], **({"log_level": "DEBUG"} if item.get("debug") else {}))
        name = "%s|%s|%s%s" % (kind, strategy_name(args), hl, "|debug" if item.get("debug") else "")
        extra = dict(item.get("extra", {}))
        if generic:
            gs = item.get("gstrat")
            gt = item.get("gtrans")
            if gs or gt:
                name = "%s|%s%s" % ("tool" if kind == "tool" else "json", ",".join("%s=%s" % kv for kv in sorted((gs or {}).items())),
                                    (";T=" + ",".join(gt)) if gt else "")
            run, merged, dec = mergedrv.run_generic(base, local, remote, name, extra=extra,
                                                    snapshot=opts.get("snapshot", False), gstrat=gs, gtrans=gt)
            if item.get("sym") and "raised" not in run:
                sw, _, _ = mergedrv.run_generic(base, remote, local, name + "|sw", gstrat=gs, gtrans=gt)
                run["sw"] = {k: sw[k] for k in ("raised", "D", "merged") if k in sw}
            if kind == "tool" and "raised" not in run:
                ev[item.get("toolkey", "toolD")] = run["D"]       # the open-conflict decisions later runs refer to
            ev["runs"].append(run)
            continue
        if kind == "side_io" and not io_only:
            continue        # separate input/output strategies only decide source/output/attachment conflicts
        with helper(hl):
            if kind == "swapped":
                run, merged, dec = run_merge(base, remote, local, args, name, extra=extra,
                                             snapshot=opts.get("snapshot", False))
                run["swapped"] = True
            else:
                run, merged, dec = run_merge(base, local, remote, args, name, extra=extra,
                                             snapshot=opts.get("snapshot", False))
            if item.get("sym") and "raised" not in run:
                sw, _, _ = run_merge(base, remote, local, args, name + "|sw", validate=False)
                run["sw"] = {k: sw[k] for k in ("raised", "D", "merged") if k in sw}
        if kind == "tool" and "raised" not in run:
            ev["toolD" if args.ignore_transients else "toolDnoT"] = run["D"]
            if args.ignore_transients:
                io_only = all(_io_path(d["common_path"], d) for d in run["D"] if d["conflict"])
        ev["runs"].append(run)
    return ev


class Events(list):
    """List of serialised events (NDJSON lines) with light metadata; parsed on demand."""

    def __init__(self):
        list.__init__(self)
        self.meta = []          # (tid, [run names])
        self._pos = {}

    def add(self, tid, names, line):
        self._pos[tid] = len(self)
        self.append(line)
        self.meta.append((tid, names))

    def event(self, tid):
        return json.loads(self[self._pos[tid]])

    def nruns(self):
        return sum(len(n) for _, n in self.meta)


def _worker_s(task):
    ev = _worker(task)
    return ev["tid"], [r["name"] for r in ev["runs"]], json.dumps(ev, separators=(",", ":"))


def _io_path(path, dec):
    """does the (encoded) decision sit inside a cell's source, outputs or attachments?"""
    keys = [st["s"] for st in path if st["k"] == "s"]
    for d in (dec["local_diff"], dec["remote_diff"]):
        if len(d) == 1 and d[0]["op"] == "patch" and d[0]["kt"] == "s":
            keys = keys + [d[0]["key"]]
            break
    if len(keys) >= 3 and keys[1] == "outputs" and "metadata" in keys[2:]:
        return False          # /cells/*/outputs/*/metadata follows the metadata (= merge) strategy, not the output strategy
    return len(keys) >= 2 and keys[0] == "cells" and keys[1] in ("source", "outputs", "attachments")


def generate(tasks, jobs=None):
    """Run the merges of all tasks in a process pool; returns Events (serialised)."""
    jobs = jobs or common.NCPU
    out = Events()
    if len(tasks) < 8 or jobs == 1:
        res = [_worker_s(t) for t in tasks]
    else:
        ctx = multiprocessing.get_context("fork")
        with ctx.Pool(jobs) as pool:
            res = pool.map(_worker_s, tasks, chunksize=max(1, len(tasks) // (jobs * 8)))
    for tid, names, line in res:
        out.add(tid, names, line)
    return out


def validate(chk, events, label, batch=40):
    v = common.validate("MergeTrace", mergedrv.MERGE_CFG, events, batch=batch, name="merge-" + chk.prop)
    chk.add_validation(v, label)
    nruns = events.nruns()
    chk.notes.setdefault("merge_runs_validated", 0)
    chk.notes["merge_runs_validated"] += nruns
    return v


class _Index(object):
    def __init__(self, events):
        self.events = events
        self._cache = {}

    def __getitem__(self, key):
        tid, name = key
        if tid not in self._cache:
            self._cache = {tid: self.events.event(tid)}
        ev = self._cache[tid]
        for run in ev["runs"]:
            if run["name"] == name:
                return ev, run
        raise KeyError(key)


def index_runs(events):
    return _Index(events)


def replay_obj(ev, run, clauses, info=None):
    from .c02 import safe_dec
    obj = {"tid": ev["tid"], "run": run["name"], "failed_clauses": clauses,
           "base": safe_dec(ev["base"]), "local": safe_dec(ev["local"]), "remote": safe_dec(ev["remote"])}
    if "raised" in run:
        obj["raised"] = run["raised"]
    if "invalid_msg" in run:
        obj["invalid_msg"] = run["invalid_msg"]
    if info:
        obj["info"] = info
    return obj


def plan_item(kind, strat=("inline", None, None, True), helper_kind="all", sym=False, extra=None, **more):
    d = {"kind": kind, "strat": list(strat), "helper": helper_kind}
    d.update(more)
    if sym:
        d["sym"] = True
    if extra:
        d["extra"] = extra
    return d


def cli_strategy_tuples():
    return [(a.merge_strategy, a.input_strategy, a.output_strategy, a.ignore_transients)
            for a in all_cli_strategies()]


# ---------------------------------------------------------------------------
# sweeps: merge EVERY TLC-enumerated triple of a region of the edit space with the real merger and forward the
# ones a cheap screen marks to the full validation.  A sweep only selects what TLC looks at; it decides nothing.
# ---------------------------------------------------------------------------
SWEEP_STRATEGIES = (("inline", None, None, True), ("use-remote", None, None, True),
                    ("inline", "use-local", "remove", False))


def _screen_raises(base, local, remote, merged, decisions, exc):
    if exc is not None:
        t, w = common.exc_info(exc)
        return "raised:%s:%s" % (t, w)
    return None


def _screen_invalid(base, local, remote, merged, decisions, exc):
    if exc is not None:
        return None
    from .concretize import schema_errors
    errs = schema_errors(merged)
    if errs:
        return "invalid:" + errs[0][:60]
    if merged.get("nbformat_minor", 0) >= 5:
        ids = [c.get("id") for c in merged.get("cells", []) if "id" in c]
        if len(set(ids)) != len(ids):
            bi = {c.get("id") for c in base.get("cells", [])}
            return "dup:" + ("base" if any(ids.count(i) > 1 and i in bi for i in ids) else "new")
    return None


def _screen_render(base, local, remote, merged, decisions, exc):
    """C16: the decisions of the merge, rendered for the terminal (what nbmerge --decisions / --log-level DEBUG print)"""
    if exc is not None or decisions is None:
        return None
    import io
    from nbdime.prettyprint import PrettyPrintConfig, pretty_print_merge_decisions
    out = io.StringIO()
    try:
        pretty_print_merge_decisions(base, decisions, PrettyPrintConfig(out=out, use_color=False, use_git=False, use_diff=False))
    except Exception as e:  # noqa
        t, w = common.exc_info(e)
        return "render-raised:%s:%s" % (t, w)
    if "\x1b[" in out.getvalue() and "\x1b[" not in repr((base, local, remote)).replace("\\x1b", "\x1b"):
        return "render-ansi"
    return None


def _screen_embedded(base, local, remote, merged, decisions, exc):
    """C11: a cheap look at the diffs embedded in the decisions - a nested patch without entries, entries of a sequence
    diff out of order (the full well-formedness is the specification's business)"""
    if exc is not None or decisions is None:
        return None

    def bad(d):
        if not d:
            return None
        keys = [e.key for e in d if isinstance(e.key, int)]
        if keys != sorted(keys):
            return "embedded:unordered"
        for e in d:
            if e.op == "patch":
                if not e.diff:
                    return "embedded:empty-patch"
                r = bad(e.diff)
                if r:
                    return r
        return None
    for dec in decisions:
        for k in ("local_diff", "remote_diff", "custom_diff"):
            r = bad(dec.get(k))
            if r:
                return r
    return None


SCREENS = {"raises": _screen_raises, "invalid": _screen_invalid, "render": _screen_render, "embedded": _screen_embedded}


def _relabel(decisions, side, only_conflicts=False):
    import copy
    out = []
    for d in decisions:
        d = copy.deepcopy(d)
        if not only_conflicts or d.conflict:
            d["action"] = side
            d["conflict"] = False
            for k in ("local_diff", "remote_diff"):
                if d.get(k) is None:
                    d[k] = []
        out.append(d)
    return out


def _whole_lossless(b, l, r):
    """C09 with nbdime's own applier as a stand-in for the specification's: the open (mergetool) decisions applied
    give merged; relabelled to one side they give that side."""
    from nbdime.merging.notebooks import decide_notebook_merge
    from nbdime.merging.decisions import apply_decisions
    try:
        D = decide_notebook_merge(b, l, r, strategy_args("mergetool", None, None, True))
        if apply_decisions(b, _relabel(D, "local")) != l:
            return "all-local"
        if apply_decisions(b, _relabel(D, "remote")) != r:
            return "all-remote"
    except Exception as e:  # noqa
        return "raised:%s" % type(e).__name__
    return None


def _whole_useside(b, l, r):
    """C10: use-X = the open merge with every conflict resolved to X (nbdime's applier as stand-in)"""
    from nbdime.merging.notebooks import decide_notebook_merge, merge_notebooks
    from nbdime.merging.decisions import apply_decisions
    try:
        D = decide_notebook_merge(b, l, r, strategy_args("mergetool", None, None, True))
        for side in ("local", "remote", "base"):
            m, dd = merge_notebooks(b, l, r, strategy_args("use-" + side, None, None, True))
            if any(d.conflict for d in dd):
                return "conflict-left:" + side
            if apply_decisions(b, _relabel(D, side, only_conflicts=True)) != m:
                return "differs:" + side
    except Exception as e:  # noqa
        return "raised:%s" % type(e).__name__
    return None


def _src_lines(nb):
    out = set()
    for c in nb.get("cells", []):
        for ln in c.get("source", "").splitlines(True):
            if ln.strip():
                out.add(ln.rstrip("\r\n\x0b\x0c\x1c\x1d\x1e\x85\u2028\u2029"))
    return out


def _whole_lines(b, l, r):
    """C07: every line a side added survives, nothing appears from nowhere (default strategy)"""
    from nbdime.merging.notebooks import merge_notebooks
    try:
        m, dd = merge_notebooks(b, l, r, strategy_args("inline", None, None, True))
    except Exception as e:  # noqa
        return "raised:%s" % type(e).__name__
    bl, ll, rl, ml = _src_lines(b), _src_lines(l), _src_lines(r), _src_lines(m)
    if (ll | rl) - bl - ml:
        return "dropped"
    alien = [x for x in ml - bl - ll - rl if not x.startswith(("<<<<<<<", "=======", ">>>>>>>", "|||||||", "<span"))]
    if alien:
        return "alien"
    return None


WHOLE_SCREENS = {"lossless": _whole_lossless, "useside": _whole_useside, "lines": _whole_lines}


def _sweep_worker(job):
    t, screen = job
    from . import concretize
    from nbdime.merging.notebooks import merge_notebooks
    mergedrv.quiet_logging()
    try:
        b, l, r = (concretize.concrete(t[k]) for k in ("base", "local", "remote"))
    except Exception:
        return None
    if screen in WHOLE_SCREENS:
        return WHOLE_SCREENS[screen](b, l, r)
    for st in SWEEP_STRATEGIES:
        merged = decisions = exc = None
        try:
            merged, decisions = merge_notebooks(b, l, r, strategy_args(*st))
        except Exception as e:  # noqa
            exc = e
        why = SCREENS[screen](b, l, r, merged, decisions, exc)
        if why:
            return why
    return None


def sweep(chk, screen, cap, positions=("same", "adjacent")):
    """[(name, base, local, remote, info)] - the triples of the swept region the screen marks, at most cap of them,
    spread over the distinct reasons the screen gave."""
    from . import concretize
    from .corpus import enumerate_edits, _bucket
    def both_notebook_level(t):
        eds = [h["edit"] for h in t.get("hist") or []]
        return len(eds) == 2 and all(e.get("pos", e.get("from")) is None for e in eds)
    tr = [t for t in enumerate_edits(1, 1) if any(p in _bucket(t) for p in positions) or both_notebook_level(t)]
    ctx = multiprocessing.get_context("fork")
    with ctx.Pool(common.NCPU) as pool:
        why = pool.map(_sweep_worker, [(t, screen) for t in tr], chunksize=64)
    groups = {}
    for t, w in zip(tr, why):
        if w:
            groups.setdefault(w, []).append(t)
    picked = []
    keys = sorted(groups)
    while len(picked) < cap and keys:
        for k in list(keys):
            if groups[k]:
                picked.append((k, groups[k].pop()))
                if len(picked) >= cap:
                    break
            else:
                keys.remove(k)
    chk.notes["sweep_" + screen] = {"triples_merged_under_%d_strategies" % len(SWEEP_STRATEGIES): len(tr),
                                    "marked": sum(1 for w in why if w), "distinct_reasons": len(groups) + 0,
                                    "forwarded": len(picked)}
    out = []
    for k, (w, t) in enumerate(picked):
        b, l, r = (concretize.concrete(t[x]) for x in ("base", "local", "remote"))
        if all(concretize.is_valid(x) for x in (b, l, r)):
            out.append(("sweep%d" % k, b, l, r, {"source": "sweep", "script": t["hist"], "screen": w,
                                                   "abstract": {"base": t["base"], "local": t["local"], "remote": t["remote"]}}))
    return out
