"""C20 - web API agrees with the library and writes only where told at start-up.

spec : WebApi.tla - requests as actions on (disk, running) per start-up mode; TLC checks
       OnlyOutputFileEverChanges, StoreRefusedWithoutOutput, CloseOnlyIfClosable, ErrorsChangeNothing,
       AnswerIndependentOfHistory and enumerates every request sequence up to the bound.
s->c : every sequence is replayed against the real Tornado application (nbdime.webapp.nbdimeserver.make_app,
       served in-process on an ephemeral port; jupyter_server / jinja2 are stubbed): after each request the
       status class and the digests of every file of the server directory must equal the model's; every
       successful answer must equal the answer a fresh server gives to the same request as its first one
       (history independence, also C12 for a long-running server); diff answers are validated by TLC
       (DiffTrace: the specification's Patch(base, diff) = the remote file); merge answers must equal the
       library's decide_notebook_merge under the web tool's strategy.
"""
import asyncio
import copy
import hashlib
import io
import json
import multiprocessing
import os
import shutil
import sys

import nbformat

from . import common, tlc, concretize, mergedrv
from .common import Check
from .diffdrv import to_plain
from .encode import enc, enc_diff, canon

CFG = """SPECIFICATION Spec
CONSTANT Mode = "%s"
CONSTANT MaxLen = %d
CONSTANT EMIT = TRUE
INVARIANT StoreRefusedWithoutOutput
INVARIANT CloseOnlyIfClosable
INVARIANT ErrorsChangeNothing
INVARIANT AnswerIndependentOfHistory
PROPERTY OnlyOutputFileEverChanges
CONSTRAINT Emit
CHECK_DEADLOCK FALSE
"""
MODES = {
    "server": dict(base_url="/"),
    "difftool": dict(difftool_args=dict(base="a.ipynb", remote="b.ipynb"), closable=True, base_url="/"),
    "difftool_refs": dict(difftool_args=dict(base="<stream a.ipynb>", remote="<stream b.ipynb>"), closable=True, base_url="/"),
    "mergetool_out": dict(mergetool_args=dict(base="a.ipynb", local="b.ipynb", remote="c.ipynb"), outputfilename="out.ipynb",
                          closable=True, base_url="/"),
    "mergetool": dict(mergetool_args=dict(base="a.ipynb", local="b.ipynb", remote="c.ipynb"), closable=True, base_url="/"),
    "mergetool_badfile": dict(mergetool_args=dict(base="a.ipynb", local="notnb.txt", remote="c.ipynb"), closable=True, base_url="/"),
    # a base URL with a regular expression metacharacter (a JupyterHub style prefix such as /user/a.b/)
    "mergeweb_out": dict(outputfilename="out.ipynb", closable=False, base_url="/nb.dime/"),
    "mergetool_inplace": dict(mergetool_args=dict(base="a.ipynb", local="b.ipynb", remote="c.ipynb"), outputfilename="b.ipynb",
                              closable=True, base_url="/"),
    "mergeweb_newdir": dict(outputfilename="newdir/out.ipynb", closable=False, base_url="/"),
}
STORED = {"store_6": 6, "store_7_extra": 7, "store_surrogate": 8}
NB = {}


def build_notebooks():
    base = {"minor": 5, "nbmd": 1, "cells": [
        {"cid": 1, "fam": 1, "kind": "code", "src": 0, "outs": 2, "md": 1, "ec": 1, "att": 0},
        {"cid": 2, "fam": 2, "kind": "markdown", "src": 0, "outs": 0, "md": 0, "ec": 0, "att": 1},
        {"cid": 3, "fam": 3, "kind": "code", "src": 0, "outs": 1, "md": 0, "ec": 2, "att": 0}]}

    def ed(**kw):
        nb = json.loads(json.dumps(base))
        for k, v in kw.items():
            i, f = k.split("_")
            nb["cells"][int(i[1:])][f] = v
        return concretize.concrete(nb)
    nbs = {1: concretize.concrete(base), 2: ed(c0_src=1, c2_outs=6, c1_att=2), 3: ed(c0_src=2, c1_src=1, c2_ec=1),
           5: ed(c1_src=2), 6: ed(c0_src=3, c0_outs=0), 7: ed(c2_src=1, c1_md=2), 8: ed(c0_src=2)}
    nbs[8]["cells"][0]["source"] += "s = '\ud800'  # an unpaired surrogate\n"
    return nbs


def file_bytes(cid):
    if cid == 4:
        # not a notebook; it starts with blank lines like a file git left with conflict markers further down
        return b"\n" * 12 + b"<<<<<<< HEAD\nthis is not a notebook\n=======\nnor this\n>>>>>>> other\n"
    return (json.dumps(NB[cid], indent=1, sort_keys=True) + "\n").encode("utf8")


def install(d, disk):
    os.makedirs(d, exist_ok=True)
    for f, cid in disk.items():
        with open(os.path.join(d, f), "wb") as fh:
            fh.write(file_bytes(cid))


def listing(d):
    """every file (bytes) and every directory (None) below d"""
    out = {}
    for root, dirs, files in os.walk(d):
        for sub in dirs:
            out[os.path.relpath(os.path.join(root, sub), d) + "/"] = None
        for f in files:
            p = os.path.join(root, f)
            with open(p, "rb") as fh:
                out[os.path.relpath(p, d)] = fh.read()
    return out


def observed_disk(mode, lst):
    """the listing in the model's terms: file -> content id (0 absent, -2 a directory the model does not know)"""
    disk = {}
    for f, data in lst.items():
        if data is None:
            disk[f] = -2
        elif mode == "mergeweb_newdir" and f == "newdir/out.ipynb":
            disk["out.ipynb"] = content_id(f, data)
        else:
            disk[f] = content_id(f, data)
    if mode == "mergeweb_newdir":
        disk.setdefault("out.ipynb", 0)
    return disk


def content_id(name, data):
    """map file bytes back to a model content id (-1: unknown / damaged)"""
    for cid in (1, 2, 3, 4, 5):
        if data == file_bytes(cid):
            return cid
    if data == b"":
        return -3          # truncated
    try:
        nb = nbformat.reads(data.decode("utf8"), as_version=4)
    except Exception:
        return -1
    for cid in (6, 7, 8):
        if canon(to_plain(nb)) == canon(to_plain(nbformat.reads(nbformat.writes(NB[cid]), as_version=4))):
            return cid
    return -1


def request_of(name, prefix):
    """(method, path, body bytes) of an alphabet request"""
    j = lambda o: json.dumps(o).encode("utf8")  # noqa
    api = prefix.rstrip("/") + "/api/"
    table = {
        "diff_ab": ("diff", j({"base": "a.ipynb", "remote": "b.ipynb"})),
        "diff_bc": ("diff", j({"base": "b.ipynb", "remote": "c.ipynb", "unexpected": 1})),
        "diff_badjson": ("diff", b"{not json"),
        "diff_missingkey": ("diff", j({"base": "a.ipynb"})),
        "diff_notnb": ("diff", j({"base": "a.ipynb", "remote": "notnb.txt"})),
        "diff_nofile": ("diff", j({"base": "a.ipynb", "remote": "missing.ipynb"})),
        "merge_abc": ("merge", j({"base": "a.ipynb", "local": "b.ipynb", "remote": "c.ipynb"})),
        "merge_badjson": ("merge", b"\xff\xfe{"),
        "merge_missingkey": ("merge", j({"base": "a.ipynb", "local": "b.ipynb"})),
        "merge_notnb": ("merge", j({"base": "notnb.txt", "local": "b.ipynb", "remote": "c.ipynb"})),
        "store_6": ("store", j({"merged": to_plain(NB[6])})),
        "store_7_extra": ("store", j({"merged": to_plain(NB[7]), "outputfilename": "evil.ipynb", "path": "../evil2.ipynb",
                                      "filename": "c.ipynb", "cwd": ".."})),
        "store_badjson": ("store", b'{"merged": '),
        "store_missingkey": ("store", j({"notebook": to_plain(NB[6])})),
        "store_notnb": ("store", j({"merged": 5})),
        "close": ("closetool", j({"exitCode": 0})),
        "unknown_route": ("nope", j({})),
        "store_surrogate": ("store", j({"merged": to_plain(NB[8])})),       # ensure_ascii: the surrogate travels as \ud800
        "near_route": ("diff", j({"base": "a.ipynb", "remote": "b.ipynb"})),
    }
    ep, body = table[name]
    if name == "near_route":
        p = api + ep
        return "POST", (p.replace(".", "X", 1) if "." in p else p.replace("/api/", "/apiX")), body
    return "POST", api + ep, body


async def _serve(mode, d, reqs):
    """serve the real application on an ephemeral port and send reqs in order"""
    from tornado import httpserver, netutil
    from tornado.httpclient import AsyncHTTPClient, HTTPRequest
    from nbdime.webapp.nbdimeserver import make_app
    params = copy.deepcopy(MODES[mode])
    if mode == "difftool_refs":
        # what nbdiff-web <ref> <ref> passes: text streams with a name (git blobs / open working tree files)
        class NamedStream(io.StringIO):
            name = ""
        streams = {}
        for k, fn in (("base", "a.ipynb"), ("remote", "b.ipynb")):
            with io.open(os.path.join(d, fn), encoding="utf8") as f:
                st = NamedStream(f.read())
            st.name = "%s (HEAD~1)" % fn if k == "base" else "%s (HEAD)" % fn
            streams[k] = st
        params["difftool_args"] = streams
    prefix = params.get("base_url", "/")
    if mode == "server":
        # the plain server's start-up parameters are the ones its real entry point (`nbdime server`,
        # nbdimeserver.main) hands to main_server for a default command line
        import nbdime.webapp.nbdimeserver as srv
        captured = {}
        orig = srv.main_server

        def capture(on_port=None, closable=False, **kw):
            captured.update(dict(kw, closable=closable))
            return 0
        srv.main_server = capture
        old_argv = list(sys.argv)
        sys.argv = ["nbdime"]
        try:
            srv.main(["--port", "0", "-w", d])
        finally:
            srv.main_server = orig
            sys.argv = old_argv
        for key in ("port", "ip"):
            captured.pop(key, None)
        captured.setdefault("cwd", d)
        app = make_app(**captured)
    else:
        app = make_app(cwd=d, **params)
    sockets = netutil.bind_sockets(0, "127.0.0.1")
    server = httpserver.HTTPServer(app)
    server.add_sockets(sockets)
    port = sockets[0].getsockname()[1]
    client = AsyncHTTPClient(force_instance=True)
    out = []
    loop = asyncio.get_event_loop()
    orig_stop = loop.stop
    stopped = {"v": False}

    def fake_stop():           # ApiCloseHandler stops the IOLoop: remember it instead of killing this driver
        stopped["v"] = True
    loop.stop = fake_stop
    try:
        for name in reqs:
            if stopped["v"]:
                out.append({"status": None, "body": None, "listing": listing(d), "stopped": True})
                continue
            method, path, body = request_of(name, prefix)
            try:
                resp = await client.fetch(HTTPRequest("http://127.0.0.1:%d%s" % (port, path), method=method, body=body,
                                                      headers={"Content-Type": "application/json"}, request_timeout=30),
                                          raise_error=False)
                status, rbody = resp.code, resp.body
            except Exception as e:  # noqa
                status, rbody = 599, str(e).encode()
            out.append({"status": status, "body": rbody, "listing": listing(d), "stopped": stopped["v"]})
    finally:
        loop.stop = orig_stop
        server.stop()
        client.close()
        await asyncio.sleep(0)
    return out


def serve(mode, d, reqs):
    loop = asyncio.new_event_loop()
    asyncio.set_event_loop(loop)
    try:
        return loop.run_until_complete(_serve(mode, d, reqs))
    finally:
        try:
            loop.run_until_complete(loop.shutdown_asyncgens())
        except Exception:
            pass
        loop.close()


def status_class(s):
    if s is None:
        return "none"
    return "ok" if 200 <= s < 300 else ("error" if s >= 400 else "other:%s" % s)


def replay(task):
    k, mode, seq, root = task
    d = os.path.join(root, "s%d" % k, "srv")
    problems, diff_events, answers = [], [], []
    try:
        install(d, {f: c for f, c in zip(("a.ipynb", "b.ipynb", "c.ipynb", "notnb.txt", "out.ipynb"), (1, 2, 3, 4, 5))
                    if not (mode == "mergeweb_newdir" and f == "out.ipynb")})
        reqs = [s["req"] for s in seq]
        out = serve(mode, d, reqs)
        for j, (step, obs) in enumerate(zip(seq, out)):
            sc = status_class(obs["status"])
            if step["req"] == "close" and step["resp"] == "ok" and sc == "none":
                sc = "ok"             # the loop may stop before the response is delivered
            prefix_desc = {"mode": mode, "requests": reqs[:j + 1]}
            alt = step.get("alt") if isinstance(step.get("alt"), list) else []
            if step["req"] in STORED and sc == "ok" and "ok" in alt and step["resp"] != "ok":
                # accepted where the model's first answer is a refusal: the output file must hold the submitted
                # notebook, nothing else may have changed (a directory created for it aside); the replay ends here
                disk = {f: c for f, c in observed_disk(mode, obs["listing"]).items() if c != -2}
                outkey = "b.ipynb" if mode == "mergetool_inplace" else "out.ipynb"
                want = dict(step["disk"], **{outkey: STORED[step["req"]]})
                if disk != want:
                    problems.append(("disk:%s:%s-accepted" % (mode, step["req"]), "store answered ok but the directory is %s" % disk, prefix_desc))
                break
            if sc != step["resp"] and sc not in alt:
                problems.append(("status:%s:%s:expected-%s-got-%s" % (mode, step["req"], step["resp"], sc),
                                 "request %s answered %s (HTTP %s), the model says %s" % (step["req"], sc, obs["status"], step["resp"]),
                                 prefix_desc))
                break
            disk = observed_disk(mode, obs["listing"])
            want = {f: c for f, c in step["disk"].items()}
            if disk != want:
                extra = sorted(set(disk) - set(want))
                changed = sorted(f for f in want if disk.get(f) != want[f])
                problems.append(("disk:%s:%s:%s" % (mode, step["req"], "new-files" if extra else "changed:" + ",".join(changed)),
                                 "after %s the server directory differs from the model: new files %s, changed %s (%s)"
                                 % (step["req"], extra, changed, {f: disk.get(f) for f in changed}), prefix_desc))
                break
            if bool(obs["stopped"]) != (not step["running"]):
                problems.append(("running:%s:%s" % (mode, step["req"]), "server %s after %s but the model says running=%s"
                                 % ("stopped" if obs["stopped"] else "still runs", step["req"], step["running"]), prefix_desc))
                break
            if sc == "ok" and step["resp"] == "ok" and step["req"].startswith(("diff_", "merge_")):
                answers.append((mode, step["req"], json.dumps(step["disk"], sort_keys=True),
                                hashlib.sha1(obs["body"]).hexdigest(), j, reqs[:j + 1]))
                if j == 0 or True:
                    try:
                        body = json.loads(obs["body"].decode("utf8"))
                    except Exception:
                        problems.append(("answer-not-json:%s" % step["req"], "successful answer is not JSON", prefix_desc))
                        break
                    if step["req"].startswith("diff_"):
                        diff_events.append((step["req"], mode, body))
                    else:
                        answers[-1] = answers[-1] + (body,)
    except Exception as e:  # noqa
        t, w = common.exc_info(e)
        problems.append(("harness", "%s at %s: %s" % (t, w, str(e)[:300]), {"mode": mode, "requests": [s["req"] for s in seq]}))
    finally:
        shutil.rmtree(os.path.dirname(d), True)
    return problems, diff_events, answers


def run():
    global NB
    chk = Check("C20")
    common.use_stubs()
    mergedrv.quiet_logging()
    import logging
    logging.getLogger("tornado").setLevel(logging.CRITICAL)
    logging.getLogger("nbdime-stub-server").setLevel(logging.CRITICAL + 1)
    import nbdime.webapp.nbdimeserver  # noqa
    NB = build_notebooks()
    for cid, nb in NB.items():
        assert concretize.is_valid(nb), cid
    rr = common.rng("c20")
    root = tlc.subdir("c20")
    tasks = []
    for mode in sorted(MODES):
        r = tlc.run("WebApi", CFG % (mode, 2), workers=1, timeout=900, name="WebApi-%s-2" % mode)
        if r.invariant_violated or r.error:
            raise tlc.TLCError("WebApi %s: %s\n%s" % (mode, r.error, r.out[-1500:]))
        chk.add_model(r, "WebApi Mode=%s MaxLen=2" % mode)
        seqs = r.json_lines("SEQ")
        r3 = tlc.run("WebApi", CFG % (mode, 3), workers=1, timeout=900, name="WebApi-%s-3" % mode)
        if r3.invariant_violated or r3.error:
            raise tlc.TLCError("WebApi %s: %s\n%s" % (mode, r3.error, r3.out[-1500:]))
        chk.add_model(r3, "WebApi Mode=%s MaxLen=3" % mode)
        seq3 = r3.json_lines("SEQ")
        if chk.quick:
            # always: a valid request, a store that succeeds, a valid request again (what is answered after the files on
            # disk changed); the rest is a seeded sample
            asks = ("merge_abc", "diff_ab", "diff_bc")
            keep = [q for q in seq3 if q[1]["req"] in ("store_6", "store_7_extra") and q[1]["resp"] == "ok"
                    and q[0]["req"] in asks and q[2]["req"] in asks]
            rr.shuffle(seq3)
            seq3 = keep + seq3[:150]
        seen = set()
        for s in seqs + seq3:
            key = json.dumps(s, sort_keys=True)
            if key in seen:
                continue
            seen.add(key)
            tasks.append((len(tasks), mode, s, root))
    logging.disable(logging.CRITICAL)
    ctx = multiprocessing.get_context("fork")
    with ctx.Pool(common.NCPU) as pool:
        results = pool.map(replay, tasks, chunksize=8)
    logging.disable(logging.NOTSET)
    first_answer = {}
    events = []
    lib = {}
    ndiff = 0
    for (k, mode, seq, _), (problems, diff_events, answers) in zip(tasks, results):
        chk.count((mode, [s["req"] for s in seq]), nontrivial=True)
        for sig, desc, info in problems:
            if sig == "harness":
                raise tlc.TLCError("harness problem: %s %s" % (desc, info))
            chk.violation(sig, desc, info)
        # history independence: same (mode, request, disk) => same answer bytes, whatever came before
        for a in answers:
            key = (a[0], a[1], a[2])          # same mode, request and files on disk => same answer
            h = a[3]
            if key not in first_answer:
                first_answer[key] = (h, a[5])
            elif first_answer[key][0] != h:
                chk.violation("history-dependent-answer:%s:%s" % (a[0], a[1]),
                              "the answer to %s differs between two histories" % a[1],
                              {"mode": a[0], "history_1": first_answer[key][1], "history_2": a[5]})
            if len(a) > 6 and a[1] == "merge_abc" or (len(a) > 6 and a[0].startswith("mergetool")):
                body = a[6]
                if a[2] not in lib:
                    # the library's answer for the notebooks that are on disk when the request arrives
                    from nbdime.merging.notebooks import decide_notebook_merge
                    rd = lambda c: nbformat.reads(file_bytes(c).decode("utf8") if c <= 5 else nbformat.writes(NB[c]), as_version=4)  # noqa
                    dk = json.loads(a[2])
                    dec = decide_notebook_merge(rd(dk["a.ipynb"]), rd(dk["b.ipynb"]), rd(dk["c.ipynb"]), mergedrv.mergetool_args())
                    lib[a[2]] = (canon(json.loads(json.dumps(dec))), canon(to_plain(rd(dk["a.ipynb"]))))
                got = (canon(body.get("merge_decisions")), canon(body.get("base")))
                if got != lib[a[2]]:
                    chk.violation("merge-answer-differs-from-library:%s" % a[0],
                                  "POST /api/merge returned decisions/base that differ from decide_notebook_merge (mergetool strategy)",
                                  {"mode": a[0], "history": a[5]})
        for req, mode, body in diff_events:
            ndiff += 1
            if ndiff > (400 if chk.quick else 4000):
                continue
            pair = {"diff_ab": (1, 2), "diff_bc": (2, 3)}.get(req, (1, 2))
            if mode in ("difftool", "difftool_refs"):
                pair = (1, 2)
            rd = lambda c: to_plain(nbformat.reads(file_bytes(c).decode("utf8"), as_version=4))  # noqa
            ev = {"tid": "d%d-%s-%s" % (ndiff, mode, req), "a": enc(rd(pair[0])), "b": enc(rd(pair[1])),
                  "d": enc_diff(body.get("diff") or []), "p": enc(body.get("base"))}
            # 'p' here carries the base notebook the server returned: it must equal the base file (PyPatch clause is not used)
            ev["aAfter"] = enc(body.get("base"))
            events.append(ev)
    if events:
        v = common.validate("DiffTrace", common.diff_trace_cfg(), events, batch=100, name="c20")
        chk.add_validation(v, "DiffTrace on %d /api/diff answers" % len(events))
        for tid, clauses in v.fails.items():
            for c in clauses:
                if c in ("SchemaOK", "WellFormed", "RoundTrip", "ArgsUnchanged"):
                    what = "returned base differs from the base file" if c == "ArgsUnchanged" else "clause %s false" % c
                    chk.violation("diff-answer:%s" % c, "POST /api/diff answer: %s (spec Patch(base, diff) must give the remote file)" % what,
                                  {"event": tid})
    chk.cov["traces_validated_against_impl"] = len(tasks)
    chk.notes["request_sequences_replayed"] = len(tasks)
    chk.notes["diff_answers_seen"] = ndiff
    chk.sample({"mode": tasks[0][1], "requests": [s["req"] for s in tasks[0][2]]})
    chk.sample({"mode": tasks[-1][1], "requests": [s["req"] for s in tasks[-1][2]], "model": tasks[-1][2]})
    chk.cov["rule"] = ("request sequences enumerated by TLC from spec/WebApi.tla: all sequences of length 2 over 17 request kinds for each "
                       "of 5 start-up modes, plus all (thorough) / 150 sampled (quick) sequences of length 3; each replayed against the "
                       "real Tornado application; distinct by (mode, sequence)")
    chk.assumptions += ["jupyter_server / jinja2 are replaced by minimal stand-ins (harness/stubs): JupyterHandler/APIHandler over "
                        "tornado.web.RequestHandler without authentication/XSRF",
                        "IOLoop.stop() called by the close handler is intercepted to observe shutdown without killing the driver loop",
                        "in tool modes the diff/merge endpoints take their notebooks from the start-up arguments and do not read the body "
                        "(modelled as such)"]
    return chk.finish()


if __name__ == "__main__":
    common.main(run)
