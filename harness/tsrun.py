"""Runs nbdime's real TypeScript sources (patch, applyDecisions) under Node >= 22.6 (type stripping)."""
import glob
import json
import os
import subprocess
from concurrent.futures import ThreadPoolExecutor

from . import common, tlc

HERE = os.path.dirname(os.path.abspath(__file__))


def find_node():
    cands = sorted(glob.glob("/root/.nvm/versions/node/v2[2-9]*/bin/node")) + ["/usr/local/bin/node", "/usr/bin/node"]
    for c in reversed(cands[:-2]) if len(cands) > 2 else cands:
        if os.path.exists(c):
            return c
    for c in cands:
        if os.path.exists(c):
            try:
                v = subprocess.run([c, "--version"], stdout=subprocess.PIPE, universal_newlines=True).stdout.strip().lstrip("v")
                if int(v.split(".")[0]) >= 22:
                    return c
            except Exception:
                pass
    return None


def run_jobs(jobs, batch=400):
    """jobs: list of dicts with unique 'id'; returns {id: result dict}"""
    node = find_node()
    if node is None:
        raise tlc.TLCError("no Node >= 22 binary found: the TypeScript sources cannot be executed (cannot decide C15)")
    work = tlc.subdir("ts")
    batches = [jobs[k:k + batch] for k in range(0, len(jobs), batch)]

    def one(ix):
        jf = os.path.join(work, "jobs-%d-%d.ndjson" % (os.getpid(), ix))
        of = jf.replace("jobs-", "out-")
        with open(jf, "w") as f:
            for j in batches[ix]:
                f.write(json.dumps(j))
                f.write("\n")
        p = subprocess.run([node, "--no-warnings", "--import", os.path.join(HERE, "ts", "register.mjs"),
                            os.path.join(HERE, "ts", "run.mjs"), common.REPO, jf, of],
                           stdout=subprocess.PIPE, stderr=subprocess.PIPE, universal_newlines=True, timeout=1200)
        if p.returncode != 0 or not os.path.exists(of):
            raise tlc.TLCError("node runner failed: %s" % p.stderr[-1500:])
        out = {}
        with open(of) as f:
            for line in f:
                if line.strip():
                    r = json.loads(line)
                    out[r["id"]] = r
        os.unlink(jf)
        os.unlink(of)
        return out

    res = {}
    with ThreadPoolExecutor(max_workers=common.NCPU) as ex:
        for out in ex.map(one, range(len(batches))):
            res.update(out)
    return res
