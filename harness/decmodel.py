"""Binding of spec/DecisionModel.tla (every way of cutting a well-formed group diff into merge decisions) to the two
appliers: nbdime.merging.decisions.apply_decisions (Python, used by C09) and packages/nbdime/src/merge/decisions.ts
applyDecisions (TypeScript, used by C15).

TLC model-checks the specification (GenWF, SchemaAll, Ordered, SplitInvariance, Untouched) per kind and prints every
(base, D, r); each printed case is replayed into the real code (spec -> code) and the result compared with r.
"""
import json
from concurrent.futures import ThreadPoolExecutor

from . import common, tlc
from .encode import dec, dec_diff, enc, enc_js
from .diffdrv import to_plain

CFG = """SPECIFICATION Spec
CONSTANT LineSeps <- PyLineSeps
CONSTANT Kind = "%s"
CONSTANT MaxW = %d
CONSTANT EMIT = TRUE
INVARIANT GenWF
INVARIANT SchemaAll
INVARIANT Ordered
INVARIANT SplitInvariance
INVARIANT Untouched
CONSTRAINT Emit
CHECK_DEADLOCK FALSE
"""

KINDS = {"quick": (("lists", 3), ("objects", 3), ("strings", 3)),
         "thorough": (("lists", 5), ("objects", 3), ("strings", 4))}


def run_models(chk, tier=None, kinds=None):
    """-> {kind: [case, ...]} with case = {"base": enc, "D": [enc decision], "r": enc}"""
    tier = tier or ("quick" if chk.quick else "thorough")
    ks = kinds or KINDS[tier]

    def one(k):
        r = tlc.run("DecisionModel", CFG % k, workers=1, timeout=3000, name="DecisionModel-%s" % k[0], xmx="8g")
        if r.invariant_violated or r.error:
            raise tlc.TLCError("DecisionModel %s: invariant violated / error:\n%s"
                               % (k, "\n".join(l for l in r.out.splitlines() if not l.startswith('"'))[-3000:]))
        return k, r

    out = {}
    with ThreadPoolExecutor(max_workers=len(ks)) as ex:
        for k, r in ex.map(one, ks):
            chk.add_model(r, "DecisionModel %s MaxW=%d" % k)
            out[k[0]] = r.json_lines("DCASE")
    return out


def dec_path(p):
    return [st["s"] if st["k"] == "s" else st["i"] for st in p]


def dec_decision(e):
    """encoded decision record (as printed by TLC) -> plain JSON decision"""
    d = {"common_path": dec_path(e["common_path"]), "action": e["action"], "conflict": bool(e["conflict"]),
         "local_diff": dec_diff(e["local_diff"]), "remote_diff": dec_diff(e["remote_diff"])}
    if not e.get("custom_null", True):
        d["custom_diff"] = dec_diff(e["custom_diff"])
    return d


def py_decisions(plain):
    from nbdime.merging.decisions import MergeDecision
    from nbdime.diff_utils import to_diffentry_dicts
    out = []
    for d in plain:
        kw = dict(common_path=tuple(d["common_path"]), action=d["action"], conflict=d["conflict"],
                  local_diff=to_diffentry_dicts(json.loads(json.dumps(d["local_diff"]))),
                  remote_diff=to_diffentry_dicts(json.loads(json.dumps(d["remote_diff"]))))
        if "custom_diff" in d:
            kw["custom_diff"] = to_diffentry_dicts(json.loads(json.dumps(d["custom_diff"])))
        out.append(MergeDecision(**kw))
    return out


def shape(plain):
    """what a case exercises: the multiset of actions and whether a decision sits on a path below another's"""
    acts = sorted(set(d["action"] for d in plain))
    depths = sorted(set(len(d["common_path"]) for d in plain))
    return "+".join(acts) + ("/deep" if len(depths) > 1 or (depths and depths[0] > 1) else "")


def sample(cases, r, n):
    """seeded sample that keeps every shape (actions x depth) represented"""
    if n is None or len(cases) <= n:
        return list(cases)
    by = {}
    for c in cases:
        by.setdefault(shape([dec_decision(e) for e in c["D"]]), []).append(c)
    out = []
    per = max(1, n // max(1, len(by)))
    rest = []
    for k in sorted(by):
        r.shuffle(by[k])
        out += by[k][:per]
        rest += by[k][per:]
    r.shuffle(rest)
    return (out + rest)[:max(n, len(out))]


def replay_py(chk, cases, kind):
    """spec -> code: apply_decisions(base, D) must equal the specification's result. Returns number compared."""
    from nbdime.merging.decisions import apply_decisions
    n = 0
    for c in cases:
        base = dec(c["base"])
        plain = [dec_decision(e) for e in c["D"]]
        exp = enc(dec(c["r"]))
        before = json.dumps(base, sort_keys=True)
        try:
            got = enc(to_plain(apply_decisions(base, py_decisions(plain))))
        except Exception as e:  # noqa
            t, w = common.exc_info(e)
            chk.violation("spec2code-decisions-raise:%s:%s:%s" % (kind, t, w),
                          "apply_decisions raised %s at %s on a TLC-generated decision list (a well-formed diff cut "
                          "into decisions; shape %s)" % (t, w, shape(plain)),
                          {"base": base, "decisions": plain, "expected": dec(c["r"])})
            continue
        n += 1
        if got != exp:
            chk.violation("spec2code-decisions-differ:%s:%s" % (kind, shape(plain)),
                          "apply_decisions(base, D) differs from the specification's ApplyDecisions(base, D) = base "
                          "patched with the diff the decisions were cut from",
                          {"base": base, "decisions": plain, "expected": dec(c["r"]), "got": dec(got)})
        elif json.dumps(base, sort_keys=True) != before:
            chk.violation("spec2code-decisions-mutate-base:%s" % kind, "apply_decisions modified its base argument",
                          {"base": json.loads(before), "decisions": plain})
    return n


# The browser only ever receives what the server's /api/merge computes: strategy "mergetool" (the handler never gets other
# merge arguments), decisions of one path in the order the merger made them (validated() sorts stably by path). The
# TypeScript side therefore sees forward-ordered lists and never the actions remove / clear_all (it does not know them:
# recorded as an observation in DESIGN.md, outside C15's quantifier).
TS_ACTIONS = {"base", "local", "remote", "either", "local_then_remote", "remote_then_local", "custom", "clear", "take_max"}


def ts_sendable(c):
    return c["tag"][1] == "fwd" and all(e["action"] in TS_ACTIONS for e in c["D"])


def ts_jobs(cases, kind):
    jobs = []
    for k, c in enumerate(cases):
        jobs.append({"id": "dm-%s-%d" % (kind, k), "kind": "decisions", "base": dec(c["base"]),
                     "decisions": [dec_decision(e) for e in c["D"]], "twice": True})
    return jobs


def check_ts(chk, cases, kind, res):
    """spec -> code for the TypeScript applier; also Python vs TypeScript on the same list."""
    from nbdime.merging.decisions import apply_decisions
    n = 0
    for k, c in enumerate(cases):
        rr = res.get("dm-%s-%d" % (kind, k))
        plain = [dec_decision(e) for e in c["D"]]
        base = dec(c["base"])
        if rr is None:
            raise tlc.TLCError("no TypeScript result for a DecisionModel case")
        if "error" in rr:
            chk.violation("ts-decisions-rejects:model:%s:%s" % (kind, (rr["error"] or "")[:40]),
                          "TypeScript applyDecisions raised on a TLC-generated decision list (shape %s): %s"
                          % (shape(plain), rr["error"]), {"base": base, "decisions": plain})
            continue
        n += 1
        exp = enc_js(dec(c["r"]))
        got = enc_js(rr["result"])
        if got != exp:
            try:
                py = to_plain(apply_decisions(base, py_decisions(plain)))
            except Exception:  # noqa
                py = "<raised>"
            chk.violation("ts-decisions:model-differs:%s:%s" % (kind, shape(plain)),
                          "TypeScript applyDecisions gives another document than the specification's ApplyDecisions "
                          "(and Python's apply_decisions) on a TLC-generated decision list",
                          {"base": base, "decisions": plain, "expected": dec(c["r"]), "ts": rr["result"], "python": py})
        elif "result2" in rr and rr["result2"] != rr["result"]:
            chk.violation("ts-decisions:model-second-application:%s" % kind,
                          "applying the same decision objects twice gives another result in TypeScript",
                          {"base": base, "decisions": plain})
    return n


# ---- the same cases with other key names -----------------------------------------------------------------------------
# The universes use the keys "a" / "b"; an implementation may treat some NAMES specially (in JavaScript a plain object
# used as a lookup table inherits constructor / toString / valueOf / hasOwnProperty ...). Renaming is a bijection on keys,
# so the expected document is the renamed one.
RENAMINGS = ({"a": "constructor", "b": "hasOwnProperty"}, {"a": "toString", "b": "valueOf"})


def rename_doc(x, m):
    if isinstance(x, dict):
        return {m.get(k, k): rename_doc(v, m) for k, v in x.items()}
    if isinstance(x, list):
        return [rename_doc(v, m) for v in x]
    return x


def rename_diff(d, m):
    out = []
    for e in d:
        e = dict(e)
        if isinstance(e.get("key"), str):
            e["key"] = m.get(e["key"], e["key"])
        if "value" in e:
            e["value"] = rename_doc(e["value"], m)
        if "valuelist" in e:
            e["valuelist"] = rename_doc(e["valuelist"], m)
        if "diff" in e:
            e["diff"] = rename_diff(e["diff"], m)
        out.append(e)
    return out


def rename_case(c, m):
    """a DecisionModel case under a key renaming (re-encoded)"""
    from .encode import enc_decision
    plain = []
    for e in c["D"]:
        d = dec_decision(e)
        d["common_path"] = [m.get(k, k) if isinstance(k, str) else k for k in d["common_path"]]
        for f in ("local_diff", "remote_diff", "custom_diff"):
            if f in d:
                d[f] = rename_diff(d[f], m)
        plain.append(d)
    return {"base": enc(rename_doc(dec(c["base"]), m)), "D": [enc_decision(d) for d in plain],
            "r": enc(rename_doc(dec(c["r"]), m)), "tag": c["tag"]}
