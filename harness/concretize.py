"""Concretisation of the abstract notebooks of spec/NotebookEdits.tla into real,
schema-valid nbformat v4 notebooks (trusted).  Content is chosen to sit on each
side of the differ's heuristic thresholds (difflib ratio 0.7 / 0.95, strings
shorter than 10 chars, base64 payloads >= 64 chars, <x at 0x...> reprs that
differ only by pointer, streams longer than 1000 chars, every line-ending mix,
missing trailing newline, text that looks like conflict markers, non-ASCII)."""
import base64
import copy
import difflib
import hashlib

import nbformat

# ---------------------------------------------------------------------------
# sources
# ---------------------------------------------------------------------------
FAMILY = {
    # (the first two lines each hold a character outside the Basic Multilingual Plane, the second at an earlier column)
    1: ("import numpy as np  # \U0001F600 arrays\n# \U0001F600 plots\nimport matplotlib.pyplot as plt\n\n"
        "def compute(x, y):\n    \"\"\"Return the scaled sum.\"\"\"\n    total = x + y\n"
        "    return total * 2.5\n\n\nvalues = [compute(i, i + 1) for i in range(10)]\nprint(values)\n"),
    2: ("# Title of the section \U0001F600\n\U0001F600 a second line with that character, at column zero\n\nSome *markdown* text with an ![image](attachment:image.png)\n\n"
        "- item one\n- item two\n- item three is a bit longer than the others\n\n"
        "Final paragraph with non-ASCII: \u00e9\u00e8 \u65e5\u672c\u8a9e \u2603."),
    3: ("x = 1\r\ny = 2\r\nz = [x, y, x + y]\r\nfor item in z:\r\n    print(item)\r\n"
        "result = sum(z)\r\nassert result == 6\r\nprint('done', result)\r\n"),
    4: ("raw cell content\nsecond raw line\nthird line is here\nfourth\nfifth and last line without newline"),
    # text that looks like conflict markers, and like diff's own end-of-file note (three times within one hunk)
    5: ("<<<<<<< HEAD\nnot really a conflict, just text\n=======\n\\ No newline at end of file\n"
        "\\ No newline at end of file\nstill ordinary text\n\\ No newline at end of file\n>>>>>>> branch\n"
        "||||||| base\nsome more words to make this long enough\nand another line\n"),
    6: ("line one\x0bline two\x85line three\u2028line four\u2029line five\x1cline six\n"
        "ordinary line seven\rline eight after bare CR\nline nine with a NUL \x00 character (tools take it for binary)\n"),
    7: ("def new_function(arg):\n    # freshly inserted cell\n    value = arg ** 2\n"
        "    print('value is', value)\n    return value\n\nnew_function(12)\nnew_function(13)\n"),
    8: ("## A newly inserted heading\n\nParagraph one of the new cell.\n\nParagraph two of the new cell,\n"
        "which continues on a second line.\n\n1. first\n2. second\n"),
}


def family_text(fam):
    if fam in FAMILY:
        return FAMILY[fam]
    h = hashlib.sha1(("fam%d" % fam).encode()).hexdigest()
    lines = ["# generated family %d" % fam]
    for i in range(6 + fam % 5):
        lines.append("var_%s_%d = %d * %d + len('%s')" % (h[i:i + 3], i, fam, i, h[i:i + 6]))
    lines.append("print(var_%s_0)" % h[0:3])
    return "\n".join(lines) + ("\n" if fam % 2 else "")


def source_variant(fam, v):
    t = family_text(fam)
    if v == 0:
        return t
    if v == 4:
        return ""
    lines = t.splitlines(True)
    if v == 1:      # one small edit in the middle: stays strictly similar (> 0.95)
        k = len(lines) // 2
        ln = lines[k]
        body = ln.rstrip("\r\n\x0b\x0c\x1c\x1d\x1e\x85\u2028\u2029")
        lines[k] = body + "!" + ln[len(body):]
        return "".join(lines)
    if v == 2:      # moderate edit: approximately similar only (0.7 .. 0.95)
        out = list(lines)
        n = len(out)
        out.insert(0, "CHANGED %d\n" % fam)
        out[n // 2 + 1] = "a replaced line\n"
        out.append("\nappended = True\n")
        return "".join(out)
    if v in (5, 6):  # the same two far-apart lines edited inside the line, differently in 5 and 6
        out = list(lines)
        for k in (1, max(1, len(out) - 2)):
            ln = out[k]
            body = ln.rstrip("\r\n\x0b\x0c\x1c\x1d\x1e\x85\u2028\u2029")
            out[k] = body + (" # five" if v == 5 else " # six!") + ln[len(body):]
        return "".join(out)
    if v == 11:      # two consecutive lines edited inside the line: a character at column 0 of the first line (in front
        out = list(lines)     # of everything on it), text appended to the second (behind everything on it)
        if len(out) < 2:
            return "X" + t
        out[0] = "X" + out[0]
        body = out[1].rstrip("\r\n\x0b\x0c\x1c\x1d\x1e\x85\u2028\u2029")
        out[1] = body + " # end" + out[1][len(body):]
        return "".join(out)
    if v == 10:      # only the last line changes; it keeps its line ending (or its lack of one)
        out = list(lines)
        ln = out[-1]
        body = ln.rstrip("\r\n\x0b\x0c\x1c\x1d\x1e\x85\u2028\u2029")
        out[-1] = body + " # end" + ln[len(body):]
        return "".join(out)
    if v == 12:      # the last line changes AND its line ending is toggled (added if it had none, dropped otherwise):
        out = list(lines)     # against variant 10 exactly one side ends with a line end, the conflict reaches the last line
        ln = out[-1]
        body = ln.rstrip("\r\n\x0b\x0c\x1c\x1d\x1e\x85\u2028\u2029")
        out[-1] = body + " # END" + ("\n" if ln == body else "")
        return "".join(out)
    if v == 9:       # one line of a run of identical adjacent lines goes (else the last line); nothing else changes
        out = list(lines)
        dup = [k for k in range(len(out) - 1) if out[k] == out[k + 1]]
        del out[dup[0] if dup else len(out) - 1]
        return "".join(out)
    if v in (7, 8):  # a character at column 0 of the middle line; 7 also inserts a line just before it
        out = list(lines)
        k = len(out) // 2
        out[k] = "X" + out[k]
        if v == 7:
            out.insert(k, "inserted_before = True\n")
        return "".join(out)
    # v == 3: rewritten, dissimilar (< 0.7)
    return ("totally different content for family %d\nnothing in common with the original\n"
            "0123456789 0123456789\nQWERTY UIOP\n" % fam)


def _ratio(a, b):
    return difflib.SequenceMatcher(None, a, b, autojunk=False).ratio()


def self_check():
    """The designed similarity relations must really hold (else machinery failure)."""
    for fam in list(FAMILY) + [11, 12]:
        t0 = source_variant(fam, 0)
        r1, r2, r3 = (_ratio(t0, source_variant(fam, v)) for v in (1, 2, 3))
        assert r1 > 0.95, (fam, 1, r1)
        assert 0.7 < r2 < 0.95, (fam, 2, r2)
        assert r3 < 0.7, (fam, 3, r3)


# ---------------------------------------------------------------------------
# outputs, metadata, attachments
# ---------------------------------------------------------------------------
def _b64(tag, n=72):
    raw = hashlib.sha256(tag.encode()).digest() * 4
    return base64.b64encode(raw[:n]).decode()


B64A, B64B, B64C = _b64("A"), _b64("B"), _b64("C", 51)
TINY_A = _b64("tiny", 30)                      # < 64 chars: below the differ's base64 detection threshold
TINY_B = TINY_A[:17] + ("A" if TINY_A[17] != "A" else "B") + TINY_A[18:]
XML_A = "<?xml version='1.0'?><chart kind='bar'><series name='s1'>1,2,3,4,5,6,7,8,9</series><series name='s2'>9,8,7</series></chart>"
B64_MULTILINE = B64A[:40] + "\n" + B64A[40:] + "\n"
LONG_STREAM = "".join("row %04d: %s\n" % (i, "x" * (i % 17)) for i in range(90))   # > 1000 chars
EC = {0: None, 1: 1, 2: 7}


def outputs_variant(v, ec, fam):
    ecv = EC[ec]
    if v == 0:
        return []
    if v == 1:
        return [{"output_type": "stream", "name": "stdout", "text": "result: %d\nline 2 of output\n" % (40 + fam)}]
    if v == 2:
        return [{"output_type": "execute_result", "execution_count": ecv, "metadata": {},
                 "data": {"text/plain": "<module.Foo at 0x7f3a2b1c9d8e>", "image/png": B64A, "image/gif": TINY_A,
                          "application/vnd.Acme.Chart+xml": XML_A, "text/HTML": "<b>first run</b>\n<i>same line</i>\n",
                          "application/json": 1}}]
    if v == 3:
        return [{"output_type": "stream", "name": "stdout", "text": "partial output\n"},
                {"output_type": "error", "ename": "ValueError", "evalue": "bad value %d" % fam,
                 "traceback": ["\x1b[0;31m---------------------------------------\x1b[0m",
                               "\x1b[0;31mValueError\x1b[0m    Traceback (most recent call last)",
                               "ValueError: bad value %d" % fam]}]
    if v == 4:
        return [{"output_type": "display_data", "metadata": {"isolated": True, "image/png": {"width": 10}},
                 # (the payload holds objects with an "op" member - a JSON Patch shown as data -: not diff entries)
                 "data": {"application/json": {"a": [1, 2, {"b": None}], "c": 1.5, "d": [[1, 2], [3]],
                                               "layers": [[0, 1], {"name": "x", "visible": True}],
                                               "patch": [{"op": "replace", "path": "/a", "value": 1}, {"op": "load"}]},
                          "text/html": "<b>bold</b>\n<i>x</i>", "text/plain": "short"}},
                {"output_type": "stream", "name": "stderr", "text": "warning: something happened\n"}]
    if v == 5:      # "re-run" of variant 2: pointer and image differ
        return [{"output_type": "execute_result", "execution_count": ecv, "metadata": {"collapsed": False},
                 "data": {"text/plain": "<module.Foo at 0x7f3a2b1c0000>", "image/png": B64B, "image/gif": TINY_B,
                          "application/vnd.Acme.Chart+xml": XML_A.replace("bar", "pie"),
                          "text/HTML": "<b>second run</b>\n<i>same line</i>\n",
                          "application/json": True}}]       # a JSON payload that changes its type
    if v == 6:
        return [{"output_type": "stream", "name": "stdout", "text": LONG_STREAM},
                {"output_type": "display_data", "metadata": {},
                 "data": {"image/png": B64_MULTILINE, "text/plain": "<Figure size 640x480 with 1 Axes>"}},
                {"output_type": "stream", "name": "stdout", "text": "result: %d\nline 2 of output\nand a third line\n" % (40 + fam)}]
    if v == 7:      # an empty mime bundle is valid too
        return [{"output_type": "display_data", "metadata": {}, "data": {}},
                {"output_type": "stream", "name": "stdout", "text": "after the empty bundle %d\n" % fam}]
    raise ValueError(v)


def retyped(x):
    """the same JSON document with every integer written as a float (1 -> 1.0): equal for Python's ==, another JSON text"""
    if isinstance(x, dict):
        return {k: retyped(v) for k, v in x.items()}
    if isinstance(x, list):
        return [retyped(v) for v in x]
    if isinstance(x, int) and not isinstance(x, bool):
        return float(x)
    return x


CELL_MD = {0: {}, 1: {"collapsed": True, "scrolled": False, "slide_order": 1},
           # (variants 1, 2 and 3 give the transient key "scrolled" three different values)
           2: {"tags": ["a", "b"], "nested": {"k": [1, {"z": None}], "f": 1.5}, "collapsed": False, "scrolled": True},
           3: {"tags": ["a", "slow", "gpu", "shared", "reviewed", "b"], "nested": {"k": [1, {"z": None}], "f": 1.5},
               "collapsed": False, "scrolled": "auto"},
           # (variants 3 and 4 both add the tag "slow", at different places of the list)
           4: {"tags": ["a", "shared", "b", "slow"], "nested": {"k": [1, {"z": None}], "f": 2.5}, "collapsed": True},
           # left behind by an earlier conflicted merge (metadata strategy record-conflict)
           5: {"tags": ["a", "b"], "collapsed": False,
               "nbdime-conflicts": {"local_diff": [{"op": "add", "key": "collapsed", "value": True}],
                                    "remote_diff": [{"op": "add", "key": "collapsed", "value": False}]}}}
NB_MD = {0: {},
         1: {"kernelspec": {"display_name": "Python 3", "language": "python", "name": "python3"},
             "language_info": {"name": "python", "version": "3.8.1"}},
         2: {"kernelspec": {"display_name": "Python 3", "language": "python", "name": "python3"},
             "custom": {"list": [[1, 2], [3]], "flag": True, "objs": [{"a": 1}, {"a": 2}], "mixed": [[1], {"k": 1}, 2],
                        "step": {"op": "load", "key": "k"}}},
         # the product of an earlier conflicted merge, and the same after the conflict was resolved by hand
         3: {"kernelspec": {"display_name": "Python 3", "language": "python", "name": "python3"}, "title": "draft",
             "nbdime-conflicts": {"local_diff": [{"op": "replace", "key": "title", "value": "mine"}],
                                  "remote_diff": [{"op": "replace", "key": "title", "value": "theirs"}]}},
         4: {"kernelspec": {"display_name": "Python 3", "language": "python", "name": "python3"}, "title": "mine"}}
ATT = {0: None, 1: {"image.png": {"image/png": B64A}},
       2: {"image.png": {"image/png": B64B}, "other.gif": {"image/gif": B64C}, "tiny.gif": {"image/GIF": TINY_A}},
       3: {"image.png": {"image/png": B64B}, "other.gif": {"image/gif": _b64("D", 51)}, "tiny.gif": {"image/GIF": TINY_B},
           "doc.txt": {"text/plain": "attached text\nsecond line"}}}


def concrete_cell(c, minor):
    kind = c["kind"]
    cell = {"cell_type": kind, "metadata": retyped(CELL_MD[c["md"] - 10]) if c["md"] >= 10 else copy.deepcopy(CELL_MD[c["md"]]),
            "source": source_variant(c["fam"], c["src"])}
    if kind == "code":
        cell["execution_count"] = EC[c["ec"]]
        cell["outputs"] = outputs_variant(c["outs"], c["ec"], c["fam"])
    elif kind == "markdown" and minor >= 1 and ATT[c["att"]] is not None:
        cell["attachments"] = copy.deepcopy(ATT[c["att"]])
    if minor >= 5:
        # (one of the identities of inserted cells is as long as the format allows: 64 characters)
        cell["id"] = "cell-%d" % c["cid"] if c["cid"] != 8 else ("cell-8-" + "0123456789abcdef" * 4)[:64]
    return cell


def concrete(nb):
    """Abstract notebook (dict as printed by TLC) -> NotebookNode."""
    minor = nb["minor"]
    d = {"nbformat": 4, "nbformat_minor": minor,
         "metadata": retyped(NB_MD[nb["nbmd"] - 10]) if nb["nbmd"] >= 10 else copy.deepcopy(NB_MD[nb["nbmd"]]),
         "cells": [concrete_cell(c, minor) for c in nb["cells"]]}
    return nbformat.from_dict(d)


def schema_errors(nb):
    """Pure JSON-schema validation against the schema of the minor the notebook declares.
    (nbformat.validate() first *normalises* - it adds missing cell ids and renames duplicate
    ones in place - which would hide exactly what C04 is about, and mutates its argument.)"""
    from nbformat import validator
    try:
        plain = _plain(nb)
        return [str(getattr(e, "message", e))[:300] for e in validator.iter_validate(plain)][:5]
    except Exception as e:  # noqa
        return ["validator raised %s: %s" % (type(e).__name__, str(e)[:200])]


def _plain(x):
    if isinstance(x, dict):
        return {k: _plain(v) for k, v in x.items()}
    if isinstance(x, (list, tuple)):
        return [_plain(v) for v in x]
    return x


def is_valid(nb):
    return not schema_errors(nb)


# ---------------------------------------------------------------------------
# the same edit actions as a random walk (deeper than the TLC-enumerated space)
# ---------------------------------------------------------------------------
def random_abstract(r, ncells=None, minor=None):
    n = r.randint(1, 8) if ncells is None else ncells
    cells = []
    for i in range(n):
        kind = r.choice(["code", "code", "markdown", "raw"])
        cells.append({"cid": i + 1, "fam": r.choice([1, 2, 3, 4, 5, 6, 11, 12, 13, 14, 15]), "kind": kind,
                      "src": r.choice([0, 0, 1, 2]), "outs": r.randint(0, 7) if kind == "code" else 0,
                      "md": r.randint(0, 5), "ec": r.randint(0, 2) if kind == "code" else 0,
                      "att": r.randint(0, 3) if kind == "markdown" else 0})
    return {"minor": r.choice([0, 1, 2, 4, 5, 5]) if minor is None else minor, "nbmd": r.randint(0, 4), "cells": cells}


def random_edit(r, nb, newfams=(7, 8, 21, 22)):
    nb = copy.deepcopy(nb)
    cells = nb["cells"]
    used = {c["cid"] for c in cells}
    fresh = min(set(range(1, 60)) - used)
    n = len(cells)
    k = r.random()
    label = None
    if k < 0.16 or n == 0:
        kind = r.choice(["code", "markdown"])
        pos = r.randint(0, n)
        cells.insert(pos, {"cid": fresh, "fam": r.choice(newfams), "kind": kind, "src": r.choice([0, 1]),
                           "outs": 1 if kind == "code" else 0, "md": 0, "ec": 1 if kind == "code" else 0, "att": 0})
        label = ("Insert", pos)
    elif k < 0.28:
        pos = r.randrange(n)
        del cells[pos]
        label = ("Delete", pos)
    elif k < 0.34 and n > 1:
        i = r.randrange(n)
        j = r.randrange(n)
        cells.insert(j, cells.pop(i))
        label = ("Move", i, j)
    elif k < 0.36:
        i = r.randrange(n)
        c = copy.deepcopy(cells[i])
        c["cid"] = fresh
        cells.insert(i + 1, c)
        label = ("Duplicate", i)
    elif k < 0.38:
        # replace a cell by a new one (removal + insertion at one position)
        i = r.randrange(n)
        kind = r.choice(["code", "markdown"])
        cells[i] = {"cid": fresh, "fam": r.choice(newfams), "kind": kind, "src": r.choice([0, 1]),
                    "outs": 1 if kind == "code" else 0, "md": 0, "ec": 1 if kind == "code" else 0, "att": 0}
        label = ("Replace", i)
    elif k < 0.39:
        i = r.randrange(n)
        cells[i]["kind"] = "markdown" if cells[i]["kind"] == "code" else "code"
        label = ("ChangeKind", i)
    elif k < 0.40:
        i = r.randrange(n)
        cells[i]["cid"] = fresh + r.randint(0, 3) * 7      # both sides may re-id the same cell differently
        if cells[i]["cid"] in used:
            cells[i]["cid"] = fresh
        label = ("ReId", i, cells[i]["cid"])
    elif k < 0.60:
        i = r.randrange(n)
        cells[i]["src"] = r.choice([v for v in (0, 1, 1, 2, 2, 3, 4, 5, 6, 7, 8, 9, 10, 11, 12) if v != cells[i]["src"]])
        label = ("EditSource", i, cells[i]["src"])
    elif k < 0.72:
        cands = [i for i in range(n) if cells[i]["kind"] == "code"]
        if cands:
            i = r.choice(cands)
            cells[i]["outs"] = r.choice([v for v in range(8) if v != cells[i]["outs"]])
            label = ("EditOutputs", i, cells[i]["outs"])
    elif k < 0.80:
        i = r.randrange(n)
        cells[i]["md"] = r.choice([v for v in range(6) if v != cells[i]["md"]])
        label = ("EditCellMeta", i, cells[i]["md"])
    elif k < 0.86:
        cands = [i for i in range(n) if cells[i]["kind"] == "code"]
        if cands:
            i = r.choice(cands)
            cells[i]["ec"] = r.choice([v for v in range(3) if v != cells[i]["ec"]])
            label = ("SetExecCount", i, cells[i]["ec"])
    elif k < 0.92:
        cands = [i for i in range(n) if cells[i]["kind"] == "markdown"]
        if cands:
            i = r.choice(cands)
            cells[i]["att"] = r.choice([v for v in range(4) if v != cells[i]["att"]])
            label = ("EditAttachment", i, cells[i]["att"])
    elif k < 0.97:
        nb["nbmd"] = r.choice([v for v in range(5) if v != nb["nbmd"]])
        label = ("EditNbMeta", nb["nbmd"])
    else:
        if nb["minor"] < 5:
            nb["minor"] += 1
            label = ("BumpMinor",)
    return nb, label


def random_script(r, nb, maxedits):
    labels = []
    for _ in range(r.randint(1, maxedits)):
        nb, lab = random_edit(r, nb)
        if lab:
            labels.append(lab)
    return nb, labels


# ---------------------------------------------------------------------------
# schema-preserving leaf perturbation of concrete notebooks (content diversity)
# ---------------------------------------------------------------------------
_B64CH = "ABCDEFGHIJKLMNOPQRSTUVWXYZabcdefghijklmnopqrstuvwxyz0123456789+/"
_LINE_ENDS = ["\n", "\r\n", "\r", "\x0b", "\x85", "\u2028", ""]


def _leaves(x, path, out, free):
    """Collect (container, key, path) of leaves; free=True where any JSON is allowed."""
    if isinstance(x, dict):
        for k in list(x.keys()):
            v = x[k]
            sub = path + (k,)
            if isinstance(v, (dict, list)):
                _leaves(v, sub, out, free)
            elif free or _editable(sub, v):
                out.append((x, k, sub))
    elif isinstance(x, list):
        for i, v in enumerate(x):
            sub = path + (i,)
            if isinstance(v, (dict, list)):
                _leaves(v, sub, out, free)
            elif free or _editable(sub, v):
                out.append((x, i, sub))


def _editable(path, v):
    last = path[-1]
    if "metadata" in path or "attachments" in path or "data" in path:
        return True
    if last in ("source", "text", "evalue", "ename"):
        return True
    if len(path) >= 2 and path[-2] == "traceback":
        return True
    if last == "execution_count":
        return True
    return False


def _mutate_leaf(r, path, v):
    if path[-1] == "execution_count":
        return r.choice([None, 1, 2, 3, 11]) if v is None or r.random() < 0.8 else v + 1
    if isinstance(v, bool):
        return not v
    if isinstance(v, int):
        return r.choice([v + 1, float(v), -v, v * 10 + 1])
    if isinstance(v, float):
        return r.choice([v + 0.5, int(v), -v])
    if v is None:
        return r.choice([0, "", False])
    if isinstance(v, str):
        mime = str(path[-1])
        if mime.startswith("image/") and "svg" not in mime and len(v) >= 8:
            i = r.randrange(len(v.rstrip("=\n")))
            if v[i] in _B64CH:
                return v[:i] + r.choice(_B64CH.replace(v[i], "")) + v[i + 1:]
            return v
        k = r.random()
        if k < 0.3:
            i = r.randint(0, len(v))
            return v[:i] + r.choice(["x", " ", "\u00e9", "0x7f00deadbeef", "\t"]) + v[i:]
        if k < 0.5 and v:
            i = r.randrange(len(v))
            return v[:i] + v[i + 1:]
        if k < 0.75:
            return v + r.choice(_LINE_ENDS) + r.choice(["appended line", "", "=======", "print(1)"]) + r.choice(_LINE_ENDS)
        lines = v.splitlines(True)
        if lines:
            i = r.randrange(len(lines))
            body = lines[i].rstrip("\r\n\x0b\x0c\x1c\x1d\x1e\x85\u2028\u2029")
            lines[i] = body + r.choice(_LINE_ENDS)
            return "".join(lines)
        return "new"
    return v


def perturb(r, nb, n=2):
    """Return a deep copy of concrete notebook nb with up to n leaf values changed."""
    nb = copy.deepcopy(nb)
    out = []
    _leaves(nb.get("metadata", {}), ("metadata",), out, True)
    for ci, cell in enumerate(nb.get("cells", [])):
        _leaves(cell, ("cells", ci), out, False)
    out = [(c, k, p) for (c, k, p) in out
           if p[-1] not in ("cell_type", "output_type", "name", "id", "nbformat", "nbformat_minor")]
    labels = []
    for _ in range(n):
        if not out:
            break
        c, k, p = r.choice(out)
        c[k] = _mutate_leaf(r, p, c[k])
        labels.append("/".join(str(x) for x in p))
    return nb, labels


# ---------------------------------------------------------------------------
# concurrent edits INSIDE the outputs of one cell (finer than the output-list variants)
# ---------------------------------------------------------------------------
def _output_fields(o):
    """editable (path, kind) leaves of one output"""
    f = []
    if o["output_type"] == "stream":
        f.append((("text",), "text"))
    elif o["output_type"] == "error":
        f.append((("evalue",), "text"))
        f.append((("traceback", 0), "text"))
    else:
        for mime in sorted(o.get("data", {})):
            if isinstance(o["data"][mime], str):
                f.append((("data", mime), "text"))
        f.append((("metadata", "added_key"), "new"))
    return f


def _set(o, path, value):
    x = o
    for k in path[:-1]:
        x = x[k]
    x[path[-1]] = value


def _get(o, path):
    x = o
    for k in path:
        if isinstance(x, dict) and k not in x:
            return None
        x = x[k]
    return x


def output_scenarios(r, n):
    """[(base, local, remote, label)]: both sides edit different fields of one output (no conflict there) and the
    same field of another output differently (conflict), plus one-sided variations."""
    out = []
    tries = 0
    while len(out) < n and tries < n * 20:
        tries += 1
        minor = r.choice([4, 5])
        outs = r.choice([2, 3, 4, 5, 6, 7])
        ab = {"minor": minor, "nbmd": 0, "cells": [
            {"cid": 1, "fam": r.choice([1, 3, 7]), "kind": "code", "src": 0, "outs": outs, "md": 0, "ec": 1, "att": 0},
            {"cid": 2, "fam": 2, "kind": "markdown", "src": 0, "outs": 0, "md": 0, "ec": 0, "att": 0}]}
        if r.random() < 0.5:
            ab["cells"].reverse()
        base = concrete(ab)
        ci = [i for i, c in enumerate(base.cells) if c.cell_type == "code"][0]
        nouts = len(base.cells[ci].outputs)
        local, remote = copy.deepcopy(base), copy.deepcopy(base)
        if nouts < 2:
            i = j = 0
        else:
            i, j = r.sample(range(nouts), 2)
        label = []
        fi = _output_fields(base.cells[ci].outputs[i])
        fj = _output_fields(base.cells[ci].outputs[j])
        if len(fi) >= 2 and r.random() < 0.8:
            (pa, ka), (pb, kb) = r.sample(fi, 2)
            for side, (p, k), tag in ((local, (pa, ka), "L"), (remote, (pb, kb), "R")):
                cur = _get(side.cells[ci].outputs[i], p)
                _set(side.cells[ci].outputs[i], p, (cur or "") + " %s-edit" % tag if k == "text" else {"by": tag})
            label.append(("independent", i, pa, pb))
        if fj and j != i and r.random() < 0.8:
            p, k = r.choice(fj)
            for side, tag in ((local, "L"), (remote, "R")):
                cur = _get(side.cells[ci].outputs[j], p)
                _set(side.cells[ci].outputs[j], p, (cur or "") + " %s-conflict" % tag if k == "text" else {"by": tag})
            label.append(("conflict", j, p))
        # one side deletes an output whose only change on the other side is transient (execution_count)
        ers = [q for q, o in enumerate(base.cells[ci].outputs) if o["output_type"] == "execute_result"]
        if ers and r.random() < 0.5:
            q = r.choice(ers)
            deleter, rerunner = (local, remote) if r.random() < 0.5 else (remote, local)
            rerunner.cells[ci].outputs[q]["execution_count"] = (base.cells[ci].outputs[q].get("execution_count") or 0) + 5
            rerunner.cells[ci]["execution_count"] = (base.cells[ci].get("execution_count") or 0) + 5
            del deleter.cells[ci].outputs[q]
            local, remote = (deleter, rerunner) if deleter is local else (rerunner, deleter)
            label = [("delete-vs-rerun", q, "local deletes" if deleter is local else "remote deletes")]
            if all(is_valid(x) for x in (base, local, remote)):
                out.append((base, local, remote, label))
            continue
        if r.random() < 0.3:
            local.cells[ci].outputs.append(nbformat.v4.new_output("stream", name="stdout", text="local appended\n"))
            label.append(("local-append",))
        if r.random() < 0.3:
            remote.cells[ci].outputs.insert(0, nbformat.v4.new_output("stream", name="stderr", text="remote prepended\n"))
            label.append(("remote-prepend",))
        if not label:
            continue
        if all(is_valid(x) for x in (base, local, remote)):
            out.append((base, local, remote, label))
    return out


# ---- spec/OutputEdits.tla: one code cell whose outputs are edited one by one on both sides ------------------
def _oe_base_output(kind, j):
    if kind == "stream":
        return {"output_type": "stream", "name": "stdout", "text": "output %d line one\nline two\nline three\n" % j}
    if kind == "error":
        return {"output_type": "error", "ename": "ValueError", "evalue": "bad value %d" % j,
                "traceback": ["Traceback (most recent call last)", "  File \"x.py\", line %d" % j, "ValueError: bad value %d" % j]}
    if kind == "result":
        return {"output_type": "execute_result", "execution_count": 3, "metadata": {},
                "data": {"text/plain": "<module.Foo %d at 0x7f3a>\nline two\nline three\n" % j, "image/png": B64A}}
    if kind == "display":
        return {"output_type": "display_data", "metadata": {"isolated": True},
                "data": {"text/plain": "repr %d line one\nline two\nline three\n" % j, "text/html": "<b>bold %d</b>" % j,
                         "image/png": B64A, "image/SVG+xml": "<svg>\n<g>line two</g>\n</svg>\n",
                         "application/json": {"n": 1}}}
    raise ValueError(kind)


def _oe_apply(cell, kinds, edits, listedit, tag):
    outs = []
    for j, (kind, ed) in enumerate(zip(kinds, edits)):
        o = copy.deepcopy(cell["outputs"][j])
        t = "both" if ed == "textS" else tag
        if ed == "del":
            continue
        if ed in ("text", "textS"):
            if kind == "stream":
                o["text"] = o["text"].replace("line two\n", "line two edited by %s\n" % t)
            elif kind == "error":
                o["evalue"] += " (%s)" % t
            else:
                o["data"]["text/plain"] = o["data"]["text/plain"].replace("line two\n", "line two edited by %s\n" % t)
                if "image/SVG+xml" in o["data"]:
                    o["data"]["image/SVG+xml"] = o["data"]["image/SVG+xml"].replace("line two", "line two edited by %s" % t)
        elif ed == "rewrite":
            new = "completely different content written by %s\nnothing in common with before\n" % tag
            if kind == "stream":
                o["text"] = new
            elif kind == "error":
                o["ename"], o["evalue"], o["traceback"] = "KeyError", "'%s'" % tag, ["KeyError raised on %s" % tag]
            else:
                o["data"] = {"text/plain": new}
        elif ed == "name":
            o["name"] = "stderr"
        elif ed == "tb":
            o["traceback"][1] += " # %s" % tag
        elif ed == "meta":
            o["metadata"]["by"] = tag
        elif ed == "mime":
            o["data"]["image/png"] = B64B if tag == "local" else B64C
            if "application/json" in o["data"]:      # the JSON payload changes its type: object -> array / number
                o["data"]["application/json"] = [1] if tag == "local" else 1.0
        elif ed == "addmime":
            o["data"]["text/latex"] = "$x_{%s}$" % tag
        elif ed == "ec":
            bump = 5 if tag == "local" else 7
            o["execution_count"] += bump
            cell["execution_count"] = 3 + bump
        outs.append(o)
    if listedit == "append":
        outs.append({"output_type": "stream", "name": "stdout", "text": "appended by %s\n" % tag})
    elif listedit == "appendS":
        outs.append({"output_type": "stream", "name": "stdout", "text": "appended by both\n"})
    elif listedit == "prepend":
        outs.insert(0, {"output_type": "stream", "name": "stderr", "text": "prepended by %s\n" % tag})
    cell["outputs"] = outs


def output_edit_triple(case, k=0):
    """(base, local, remote) notebooks for one state of OutputEdits.tla"""
    minor = 5 if k % 2 else 4
    kinds = case["kinds"]
    code = {"cell_type": "code", "metadata": {}, "execution_count": 3, "source": source_variant(1 + k % 3, 0),
            "outputs": [_oe_base_output(kind, j) for j, kind in enumerate(kinds)]}
    md = {"cell_type": "markdown", "metadata": {}, "source": source_variant(2, 0)}
    if minor >= 5:
        code["id"], md["id"] = "cell-1", "cell-2"
    cells = [md, code] if k % 4 >= 2 else [code, md]
    base = {"nbformat": 4, "nbformat_minor": minor, "metadata": {}, "cells": cells}
    ci = cells.index(code)
    out = [nbformat.from_dict(copy.deepcopy(base))]
    for edits, listedit, tag in ((case["le"], case["ll"], "local"), (case["re"], case["rl"], "remote")):
        nb = copy.deepcopy(base)
        _oe_apply(nb["cells"][ci], kinds, edits, listedit, tag)
        out.append(nbformat.from_dict(nb))
    return tuple(out)
