"""CellAlign.tla - the multilevel cell alignment of the notebook differ at design level, bound to the code:
TLC checks the transcription (diffing/snakes.py + diffing/seq_bruteforce.py) on every pair of abstract cell lists and
prints (A, B, snakes); each is recomputed (1) by nbdime's compute_snakes_multilevel with Python predicates that read the
abstract fields - this binds the algorithm - and (2) by the same function on REAL cells (harness/concretize content on
each side of the differ's thresholds) with the predicates nbdime configures for /cells - this binds
compare_cell_approximate / _moderate / _strict / _by_ids, including what they do when ids are ignored."""
import copy

from . import common, tlc, concretize

CFG = """SPECIFICATION Spec
CONSTANT MaxLen = %d
CONSTANT EMIT = %s
CONSTANT IdsIgnored = %s
CONSTANT NIds = %d
CONSTANT Kind = "%s"
INVARIANT SnakesOK
INVARIANT TopLevelIsLcs
INVARIANT IdentityAligns
INVARIANT DiffShape
INVARIANT IgnoredIdsIrrelevant
INVARIANT ExchangedIdsInvisible
INVARIANT SoleIdAligned
CONSTRAINT Emit
CHECK_DEADLOCK FALSE
"""

# abstract field -> real content: sources of two dissimilar families (a), the family text or its moderate edit
# (v: approximately but not strictly similar), outputs of two kinds that the output differ never aligns (o)
_SRC = {(1, 1): (1, 0), (1, 2): (1, 2), (2, 1): (3, 0), (2, 2): (3, 2)}


def real_cell(c):
    fam, var = _SRC[(c["a"], c["v"])]
    outs = ([{"output_type": "stream", "name": "stdout", "text": "result: 41\nline 2 of output\n"}] if c["o"] == 1 else
            [{"output_type": "error", "ename": "ValueError", "evalue": "bad value", "traceback": ["ValueError: bad value"]}])
    cell = {"cell_type": "code", "metadata": {}, "execution_count": 1, "source": concretize.source_variant(fam, var), "outputs": outs}
    if c["id"]:
        cell["id"] = "cell-%d" % c["id"]
    import nbformat
    return nbformat.from_dict(cell)


def real_output(c):
    """abstract output [a, v, o] -> an execute_result: data of two dissimilar kinds (a), the text or its moderate edit
    (v: approximately but not strictly equal), execution count o"""
    fam, var = _SRC[(c["a"], c["v"])]
    import nbformat
    return nbformat.from_dict({"output_type": "execute_result", "execution_count": c["o"], "metadata": {},
                               "data": {"text/plain": concretize.source_variant(fam, var)}})


def _abstract_output_predicates(details_ignored):
    def approx(x, y):
        return x["a"] == y["a"]

    def strict(x, y):
        return x["a"] == y["a"] and x["v"] == y["v"] and (details_ignored or x["o"] == y["o"])
    return [approx, strict]


def _abstract_predicates(ids_ignored):
    def approx(x, y):
        return x["a"] == y["a"]

    def moderate(x, y):
        return x["a"] == y["a"] and x["o"] == y["o"]

    def strict(x, y):
        return x["a"] == y["a"] and x["o"] == y["o"] and x["v"] == y["v"]

    def by_ids(x, y):
        return strict(x, y) if ids_ignored else (x["id"] != 0 and x["id"] == y["id"])
    return [approx, moderate, strict, by_ids]


def self_check():
    """the content mapping must realise the abstract predicates (else machinery failure)"""
    from nbdime.diffing.notebooks import compare_cell_approximate, compare_cell_moderate, compare_cell_strict
    cells = [{"id": 0, "a": a, "o": o, "v": v} for a in (1, 2) for o in (1, 2) for v in (1, 2)]
    ap, mo, st, _ = _abstract_predicates(False)
    for x in cells:
        for y in cells:
            rx, ry = real_cell(x), real_cell(y)
            assert compare_cell_approximate(rx, ry) == ap(x, y), ("approximate", x, y)
            assert compare_cell_moderate(rx, ry) == mo(x, y), ("moderate", x, y)
            assert compare_cell_strict(rx, ry) == st(x, y), ("strict", x, y)


def cell_align(chk, maxlen, nids, ids_ignored, emit=True, kind="cells"):
    """kind "outputs": the same algorithm on the outputs of a cell under nbdime's two output predicates; ids_ignored
    then says whether the details (execution counts) are ignored"""
    r = tlc.run("CellAlign", CFG % (maxlen, "TRUE" if emit else "FALSE", "TRUE" if ids_ignored else "FALSE", nids, kind),
                workers=common.NCPU, timeout=3000, name="CellAlign-%s-%d-%d-%s" % (kind, maxlen, nids, ids_ignored), xmx="8g")
    if r.invariant_violated or r.error:
        raise tlc.TLCError("CellAlign: %s\n%s" % (r.error, "\n".join(l for l in r.out.splitlines() if not l.startswith('"'))[-2500:]))
    chk.add_model(r, "CellAlign %s MaxLen=%d NIds=%d %s=%s (every pair of lists)"
                  % (kind, maxlen, nids, "IdsIgnored" if kind == "cells" else "DetailsIgnored", ids_ignored))
    if not emit:
        return
    from nbdime.diffing.snakes import compute_snakes_multilevel
    from nbdime.diffing import notebooks as nbd
    try:
        self_check()
    except AssertionError:
        # a change of the predicates themselves: the comparison below then says where they differ from the model
        chk.notes.setdefault("CellAlign_vs_nbdime", {})["content_mapping_self_check"] = "failed"
    cells = kind == "cells"
    preds = _abstract_predicates(ids_ignored) if cells else _abstract_output_predicates(ids_ignored)
    make = real_cell if cells else real_output
    if ids_ignored:
        nbd.set_notebook_diff_targets(**({"identifier": False} if cells else {"details": False}))
    n = drift_algo = drift_pred = 0
    first = None
    cache = {}
    try:
        real_preds = list(nbd.notebook_predicates["/cells" if cells else "/cells/*/outputs"])
        for m in r.json_lines("ALIGN"):
            A = m["A"] if isinstance(m["A"], list) else []
            B = m["B"] if isinstance(m["B"], list) else []
            S = [tuple(s) for s in (m["S"] if isinstance(m["S"], list) else [])]
            n += 1
            try:
                got = [tuple(s) for s in compute_snakes_multilevel(A, B, preds)]
            except Exception as e:  # noqa
                got = "raised %s" % type(e).__name__
            if got != S:
                drift_algo += 1
                first = first or {"A": A, "B": B, "model": S, "nbdime_algorithm": got}
            try:
                ra = [cache.setdefault(str(c), make(c)) for c in A]
                rb = [cache.setdefault(str(c), make(c)) for c in B]
                got2 = [tuple(s) for s in compute_snakes_multilevel(ra, rb, real_preds)]
            except Exception as e:  # noqa
                got2 = "raised %s" % type(e).__name__
            if got2 != S:
                drift_pred += 1
                first = first or {"A": A, "B": B, "model": S, "nbdime_real_predicates": got2}
    finally:
        if ids_ignored:
            nbd.reset_notebook_differ()
    chk.notes.setdefault("CellAlign_vs_nbdime", {})["%s-maxlen%d-ids%d-%s" % (kind, maxlen, nids, "ignored" if ids_ignored else "inforce")] = {
        "pairs_compared": n, "drift_algorithm": drift_algo, "drift_real_predicates": drift_pred, "first_drift": first}
    chk.count(("CellAlign", kind, maxlen, nids, ids_ignored), nontrivial=False, n=n)
