"""Minimal stand-in for jupyter_server (not installed in this image)."""
