import logging

from tornado import web


class JupyterHandler(web.RequestHandler):
    """The few things nbdime's handlers use from jupyter_server's JupyterHandler."""

    @property
    def base_url(self):
        return self.settings.get("base_url", "/")

    @property
    def log(self):
        return logging.getLogger("nbdime-stub-server")

    @property
    def mathjax_config(self):
        return "TeX-AMS_HTML-full,Safe"

    def check_xsrf_cookie(self):
        return None

    def get_template(self, name):
        return self.settings["jinja2_env"].get_template(name)

    def render_template(self, name, **ns):
        ns.setdefault("base_url", self.base_url)
        return self.get_template(name).render(**ns)

    def get_json_body(self):
        import json
        if not self.request.body:
            return None
        return json.loads(self.request.body.decode("utf8"))


class APIHandler(JupyterHandler):
    def finish(self, *args, **kwargs):
        self.set_header("Content-Type", "application/json")
        return super(APIHandler, self).finish(*args, **kwargs)
