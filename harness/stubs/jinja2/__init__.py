"""Minimal stand-in for jinja2 (not installed in this image): enough for nbdime.webapp to import
and to render its templates as a JSON dump of the template variables."""
import json


class BaseLoader(object):
    pass


class FileSystemLoader(BaseLoader):
    def __init__(self, searchpath, *a, **kw):
        self.searchpath = searchpath if isinstance(searchpath, (list, tuple)) else [searchpath]


class ChoiceLoader(BaseLoader):
    def __init__(self, loaders):
        self.loaders = list(loaders)


class Template(object):
    def __init__(self, name):
        self.name = name

    def render(self, **kw):
        return "<!-- stub template %s -->\n%s" % (self.name, json.dumps(kw, default=str, sort_keys=True))


class Environment(object):
    def __init__(self, loader=None, autoescape=False, **kw):
        self.loader = loader
        self.globals = {}

    def get_template(self, name):
        return Template(name)
