"""C03 - three-way merge always completes, every strategy, every helper.
C04 shares the driver (see c04.py): the merged notebook validates against its declared schema.

spec : MergeTrace.tla clause Completes (a raised exception is a rejected event), ValidNb;
       MergeModel.tla (design level: every chunk shape of well-formed diffs is handled).
c->s : merge_notebooks on TLC-enumerated + random triples x {default, mergetool} x helper in
       {git merge-file, diff3, built-in}; a conflict-rich core x all 280 CLI strategies + mergetool.
"""
from . import common, mergefam
from .common import Check
from .corpus import Corpus
from .mergefam import plan_item
from .c09 import classify

HELPERS = ("git", "diff3", "builtin")
ALL_HELPERS = HELPERS + ("diffonly",)       # diff without diff3: no merge helper, but not an empty PATH either


def conflict_rich(t):
    """abstract triples where both sides touch the same or adjacent cells"""
    if not t.get("hist") or len(t["hist"]) < 2:
        return False
    return True


def make_tasks(triples, n_core, r):
    cli = mergefam.cli_strategy_tuples()
    tasks = []
    for k, (name, b, l, rr, info) in enumerate(triples):
        plan = []
        if k < n_core:
            for s in cli:
                plan.append(plan_item("cli", s, HELPERS[k % 3]))
            plan.append(plan_item("tool", ("mergetool", None, None, True), HELPERS[k % 3]))
        else:
            for h in (ALL_HELPERS if k % 2 else HELPERS):
                plan.append(plan_item("cli", ("inline", None, None, True), h))
            plan.append(plan_item("tool", ("mergetool", None, None, True)))
            if k % 4 == 2:      # --log-level DEBUG: the merger also renders the inputs, both diffs and the decisions
                plan.append(plan_item("cli", ("inline", None, None, True), debug=True))
            for s in r.sample(cli, 4):
                plan.append(plan_item("cli", s, r.choice(HELPERS)))
        tasks.append((name, b, l, rr, plan, {}))
    return tasks


def build(chk, salt, screen="raises"):
    corp = Corpus(chk)
    r = common.rng(salt)
    if chk.quick:
        triples = corp.triples(n_enum=600, n_random=160, salt=salt)
        r.shuffle(triples)
        triples = triples[:14] + mergefam.sweep(chk, screen, 120) + triples[14:]
        tasks = make_tasks(triples, 14, r)
    else:
        triples = corp.triples(n_enum=8000, n_random=4000, random_maxedits=5, salt=salt)
        r.shuffle(triples)
        triples = triples[:300] + mergefam.sweep(chk, screen, 1500, positions=("same", "adjacent", "apart")) + triples[300:]
        tasks = make_tasks(triples, 300, r)
    return triples, tasks


def run(prop="C03", clauses=("Completes",)):
    chk = Check(prop)
    triples, tasks = build(chk, "c03")
    events = mergefam.generate(tasks)
    info = {t[0]: t[4] for t in triples}
    for tid, names in events.meta:
        chk.count((info[tid].get("abstract"),), nontrivial=True, n=len(names))
    # only what this property decides is sent to TLC: runs that raised carry no payload
    v = mergefam.validate(chk, events, "MergeTrace on %d triples" % len(events))
    idx = mergefam.index_runs(events)
    for key, cl in v.fails.items():
        ev, run_ = idx[key]
        classify(chk, ev, run_, cl, clauses, info[ev["tid"]].get("script"))
    for name, b, l, rr, inf in triples[:2]:
        chk.sample({"triple": name, "edit_script": inf.get("script"), "abstract": inf.get("abstract")})
    chk.cov["rule"] = ("triples from spec/NotebookEdits.tla (one edit per side, TLC-enumerated) + random walks; runs = "
                       "default strategy under each helper (git merge-file / diff3 / built-in / a PATH with diff but no diff3, selected by a private PATH), "
                       "mergetool, sampled CLI strategies; a core subset under all 280 CLI strategies + mergetool; "
                       "evaluations = merges, distinct by abstract triple")
    chk.assumptions += ["helpers are made (un)available through PATH so shutil.which really (does not) find them",
                        "merged notebooks are validated with the JSON schema of their declared minor without nbformat's "
                        "normalisation step (which would add missing ids / rename duplicates)"]
    return chk.finish()


if __name__ == "__main__":
    common.main(run)
