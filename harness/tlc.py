"""TLC runner: builds a cfg, runs TLC under a timeout in a private scratch dir,
parses the summary (states / distinct / depth), per-action coverage and the
tuples the specifications print (verdicts, generated cases)."""
import atexit
import json
import os
import re
import shutil
import subprocess
import tempfile
import time

VERIF = os.path.dirname(os.path.dirname(os.path.abspath(__file__)))
SPEC = os.path.join(VERIF, "spec")
JAR_CP = "/opt/veriftools/tla/tla2tools.jar:/opt/veriftools/tla/CommunityModules-deps.jar"

_scratch = None
JAVA = shutil.which("java") or "java"      # resolved once: checks may later restrict PATH


def scratch():
    """Private scratch directory, removed at interpreter exit."""
    global _scratch
    if _scratch is None:
        base = os.environ.get("VERIF_SCRATCH") or tempfile.gettempdir()
        _scratch = tempfile.mkdtemp(prefix="nbverif-", dir=base)
        atexit.register(shutil.rmtree, _scratch, True)
    return _scratch


def subdir(name):
    p = os.path.join(scratch(), name)
    os.makedirs(p, exist_ok=True)
    return p


class TLCError(RuntimeError):
    pass


class TLCResult(object):
    def __init__(self, out, rc, wall):
        self.out = out
        self.rc = rc
        self.wall = wall
        self.generated = self.distinct = self.depth = 0
        m = re.search(r"(\d+) states generated, (\d+) distinct states found", out)
        if m:
            self.generated, self.distinct = int(m.group(1)), int(m.group(2))
        m = re.search(r"depth of the complete state graph search is (\d+)", out)
        if m:
            self.depth = int(m.group(1))
        self.invariant_violated = ("is violated" in out) or ("Error: Invariant" in out)
        self.error = None
        m = re.search(r"^Error: (.*)$", out, re.M)
        if m:
            self.error = m.group(1)
        self.postcondition_failed = "Postcondition" in out and "violated" in out.lower()

    # ---- printed tuples ------------------------------------------------
    def tuples(self, head):
        """All printed tuples <<"head", ...>> with string / int / nested seq fields."""
        res = []
        pat = '<<"%s"' % head
        for line in self.out.splitlines():
            line = line.strip()
            if line.startswith(pat):
                try:
                    res.append(parse_tla_tuple(line))
                except Exception:
                    raise TLCError("cannot parse TLC output line: %r" % line[:200])
        return res

    def json_lines(self, head):
        """Lines printed as PrintT("HEAD " \\o ToJson(x)) -> list of parsed JSON."""
        res = []
        pat = '"%s ' % head
        for line in self.out.splitlines():
            line = line.strip()
            if line.startswith(pat):
                s = json.loads(line)          # TLA+ string literal escapes are JSON compatible
                res.append(json.loads(s[len(head) + 1:]))
        return res

    def coverage(self):
        """per-action (name -> (distinct, total)) from -coverage output."""
        cov = {}
        for m in re.finditer(r"^<(\w+) line \d+, col \d+ to line \d+, col \d+ of module (\w+)>: (\d+):(\d+)",
                             self.out, re.M):
            cov[m.group(1)] = (int(m.group(3)), int(m.group(4)))
        return cov


def parse_tla_tuple(s):
    """Parse a printed TLA+ value built from <<...>>, strings, ints, TRUE/FALSE, {..} sets."""
    pos = 0
    n = len(s)

    def ws():
        nonlocal pos
        while pos < n and s[pos] in " \t\r\n":
            pos += 1

    def val():
        nonlocal pos
        ws()
        if s.startswith("<<", pos):
            pos += 2
            items = []
            ws()
            if s.startswith(">>", pos):
                pos += 2
                return items
            while True:
                items.append(val())
                ws()
                if s.startswith(">>", pos):
                    pos += 2
                    return items
                if s[pos] != ",":
                    raise ValueError("expected , at %d" % pos)
                pos += 1
        if s[pos] == "{":
            pos += 1
            items = []
            ws()
            if s[pos] == "}":
                pos += 1
                return items
            while True:
                items.append(val())
                ws()
                if s[pos] == "}":
                    pos += 1
                    return items
                if s[pos] != ",":
                    raise ValueError("expected , at %d" % pos)
                pos += 1
        if s[pos] == '"':
            j = pos + 1
            buf = []
            while s[j] != '"':
                if s[j] == "\\":
                    j += 1
                    buf.append({"n": "\n", "t": "\t", "r": "\r", "f": "\f"}.get(s[j], s[j]))
                else:
                    buf.append(s[j])
                j += 1
            pos = j + 1
            return "".join(buf)
        m = re.match(r"-?\d+", s[pos:])
        if m:
            pos += m.end()
            return int(m.group(0))
        if s.startswith("TRUE", pos):
            pos += 4
            return True
        if s.startswith("FALSE", pos):
            pos += 5
            return False
        raise ValueError("unexpected %r at %d" % (s[pos:pos + 10], pos))

    v = val()
    return v


def run(module, cfg, env=None, workers=1, timeout=1800, simulate=None, depth=None,
        coverage=False, seed=None, deadlock=None, name=None, xss="512m", xmx="6g",
        extra=None, check=True):
    """Run TLC on spec/<module>.tla with the given cfg text.

    Returns TLCResult.  Raises TLCError on crash/timeout/parse problems when check=True
    (invariant violations are reported through the result, not raised)."""
    name = name or module
    work = subdir("tlc-%s-%d-%d" % (name, os.getpid(), int(time.time() * 1000) % 10**9))
    cfg_path = os.path.join(work, module + ".cfg")
    with open(cfg_path, "w") as f:
        f.write(cfg)
    cmd = [JAVA, "-XX:+UseParallelGC", "-Xss" + xss, "-Xmx" + xmx, "-cp", JAR_CP, "tlc2.TLC",
           "-workers", str(workers), "-metadir", os.path.join(work, "meta"),
           "-noGenerateSpecTE", "-config", cfg_path]
    if coverage:
        cmd += ["-coverage", "1"]
    if simulate:
        cmd += ["-simulate", simulate]
    if depth:
        cmd += ["-depth", str(depth)]
    if seed is not None:
        cmd += ["-seed", str(seed)]
    if deadlock is False:
        cmd += ["-deadlock"]
    if extra:
        cmd += list(extra)
    cmd.append(os.path.join(SPEC, module + ".tla"))
    e = dict(os.environ)
    e.pop("JAVA_TOOL_OPTIONS", None)
    if env:
        e.update(env)
    t0 = time.time()
    try:
        p = subprocess.run(cmd, cwd=SPEC, env=e, stdout=subprocess.PIPE, stderr=subprocess.STDOUT,
                           timeout=timeout, universal_newlines=True, errors="replace")
    except subprocess.TimeoutExpired as ex:
        if check:
            raise TLCError("TLC timeout after %ss on %s" % (timeout, name))
        out = ex.stdout or ""
        if isinstance(out, bytes):
            out = out.decode("utf8", "replace")
        r = TLCResult(out, -9, time.time() - t0)
        shutil.rmtree(work, True)
        return r
    r = TLCResult(p.stdout, p.returncode, time.time() - t0)
    shutil.rmtree(work, True)
    if check:
        ok_end = ("Model checking completed" in r.out or "Finished in" in r.out or
                  "Progress: " in r.out or "simulation" in r.out.lower())
        crashed = (r.error is not None and not r.invariant_violated and
                   "Postcondition" not in (r.error or "") and "Deadlock" not in (r.error or ""))
        if crashed or not ok_end:
            tail = "\n".join(r.out.splitlines()[-40:])
            raise TLCError("TLC failed on %s (rc=%s):\n%s" % (name, p.returncode, tail))
    return r


def sany(module):
    cmd = [JAVA, "-cp", JAR_CP, "tla2sany.SANY", os.path.join(SPEC, module + ".tla")]
    p = subprocess.run(cmd, cwd=SPEC, stdout=subprocess.PIPE, stderr=subprocess.STDOUT,
                       universal_newlines=True)
    ok = p.returncode == 0 and "Semantic errors" not in p.stdout and "***Parse Error***" not in p.stdout \
        and "Fatal errors" not in p.stdout
    return ok, p.stdout
