"""C15 - browser-side patch and decision application agree with the Python side.

spec : DiffTrace.tla clauses TsPatchIsPyPatch / TsPatchIsSpecPatch / TsAccepts, MergeTrace.tla clauses TsApplied /
       TsAccepts; DiffModel.tla supplies every well-formed (doc, diff) of the bounded universe (diffs the Python
       differ never emits) with the specification's own Patch result.
c->s : the REAL TypeScript sources (packages/nbdime/src/patch, merge/decisions.ts) are executed by Node >= 22 through
       a type-stripping loader; programs: every (base, diff) from diff_notebooks on the corpus pairs and from the
       generic differ (strings with every Unicode line separator), every TLC-generated (doc, diff), every
       (base, decisions) of the web tool's strategy ('mergetool') on the corpus triples incl. format-version conflicts.
"""
import json

from . import common, tlc, genjson, mergedrv, mergefam
from .common import Check
from .corpus import Corpus
from .diffdrv import diff_event, to_plain
from .encode import enc, enc_js, enc_diff, dec, dec_diff, enc_decisions
from .c02 import run_models
from . import tsrun

DIFF_CLAUSES = ("TsPatchIsPyPatch", "TsPatchIsSpecPatch", "TsAccepts")


def js(x):
    return json.loads(json.dumps(x))


def run():
    from nbdime import diff_notebooks, patch_notebook
    from nbdime.diffing.generic import diff
    from nbdime.patching import patch
    from nbdime.merging.notebooks import decide_notebook_merge
    from nbdime.merging.decisions import apply_decisions
    chk = Check("C15", level="translation_validation")
    mergedrv.quiet_logging()
    corp = Corpus(chk)
    r = common.rng("c15")
    jobs, events = [], []
    # ---- (1) TLC-generated well-formed (doc, diff): spec Patch is the expected result -------------
    models = run_models("quick" if chk.quick else "thorough", chk,
                        universes=[("lists", 2), ("nested", 1), ("objects", 2), ("strings", 1)] if chk.quick else None)
    for u, (docs, cases) in models.items():
        if chk.quick and len(cases) > 3000:
            r.shuffle(cases)
            cases = cases[:3000]
        if u == "objects":
            # the same programs with keys named like members every JavaScript object inherits
            from . import decmodel as _dm
            from .encode import enc_diff as _encd
            ren = []
            for j, c in enumerate(cases[:1500 if chk.quick else len(cases)]):
                m = _dm.RENAMINGS[j % len(_dm.RENAMINGS)]
                ren.append({"a": enc(_dm.rename_doc(dec(c["a"]), m)), "d": _encd(_dm.rename_diff(dec_diff(c["d"]), m)),
                            "r": enc(_dm.rename_doc(dec(c["r"]), m))})
            cases = cases + ren
        for k, c in enumerate(cases):
            a, d, exp = dec(c["a"]), dec_diff(c["d"]), dec(c["r"])
            tid = "w-%s-%d" % (u, k)
            jobs.append({"id": tid, "kind": "patch", "base": a, "diff": d})
            events.append({"tid": tid, "a": c["a"], "b": c["r"], "d": c["d"], "pjs": enc_js(exp), "_exact": not _has_float(exp)})
    nwf = len(jobs)
    # ---- (2) diffs the Python differs produce -------------------------------------------------------
    for j in range(800 if chk.quick else 20000):
        a, b = genjson.rand_pair(r, kind="str" if j % 2 else None, depth=3)
        try:
            d = diff(a, b)
            p = patch(a, d)
        except Exception:
            continue
        tid = "g-%d" % j
        jobs.append({"id": tid, "kind": "patch", "base": a, "diff": js(d)})
        events.append({"tid": tid, "a": enc(a), "b": enc(b), "d": enc_diff(d), "pjs": enc_js(to_plain(p))})
    pairs = corp.pairs(n_enum=500 if chk.quick else None, n_random=200 if chk.quick else 5000,
                       n_unrelated=40 if chk.quick else 1000, salt="c15")
    # every intra-line source variant on the families whose first lines hold characters outside the Basic Multilingual
    # Plane (positions count code points on the server, UTF-16 units in the browser), in one and in two cells
    from . import concretize
    for fam in (1, 2):
        for v in (1, 5, 6, 7, 8, 9, 10, 11):
            for two in (False, True):
                cell = {"cid": 1, "fam": fam, "kind": "markdown", "src": 0, "outs": 0, "md": 0, "ec": 0, "att": 0}
                cells_a = [cell] + ([dict(cell, cid=2)] if two else [])
                cells_b = [dict(c, src=v if k == 0 else 11) for k, c in enumerate(cells_a)]
                pairs.append(("astral-%d-%d-%d" % (fam, v, two), concretize.concrete({"minor": 5, "nbmd": 0, "cells": cells_a}),
                              concretize.concrete({"minor": 5, "nbmd": 0, "cells": cells_b}), {"source": "astral"}))
    for name, a, b, info in pairs:
        d = diff_notebooks(a, b)
        p = patch_notebook(a, d)
        tid = "nb-" + name
        jobs.append({"id": tid, "kind": "patch", "base": js(a), "diff": js(d), "twice": True})
        events.append({"tid": tid, "a": enc(to_plain(a)), "b": enc(to_plain(b)), "d": enc_diff(d), "pjs": enc_js(to_plain(p))})
    # ---- (3) decisions of the web tool's strategy -------------------------------------------------
    triples = corp.triples(n_enum=380 if chk.quick else 9000, n_random=120 if chk.quick else 4000, salt="c15")
    mtasks = [(name, b, l, rr, [mergefam.plan_item("tool", ("mergetool", None, None, True))], {}) for name, b, l, rr, info in triples]
    mevents = mergefam.generate(mtasks)
    base_of = {t[0]: t[1] for t in triples}
    info_of = {t[0]: t[4] for t in triples}
    mjobs = {}
    from nbdime.merging.notebooks import merge_notebooks
    for name, b, l, rr, inf in triples:
        try:
            merged, D = merge_notebooks(b, l, rr, mergedrv.mergetool_args())
        except Exception:
            continue
        jobs.append({"id": "m-" + name, "kind": "decisions", "base": js(b), "decisions": js(D), "twice": True})
        mjobs[name] = enc_js(to_plain(merged))
    # ---- (4) the decision format itself: TLC-generated decision lists (DecisionModel.tla), as the server can send them ---
    from . import decmodel
    dm = decmodel.run_models(chk)
    dm_cases = {}
    for kind, cases in dm.items():
        send = [c for c in cases if decmodel.ts_sendable(c)]
        dm_cases[kind] = decmodel.sample(send, r, 4000 if chk.quick else None)
        if kind == "objects":
            dm_cases[kind] += [decmodel.rename_case(c, decmodel.RENAMINGS[j % len(decmodel.RENAMINGS)])
                               for j, c in enumerate(dm_cases[kind][:1500 if chk.quick else len(dm_cases[kind])])]
        jobs += decmodel.ts_jobs(dm_cases[kind], kind)
    res = tsrun.run_jobs(jobs)
    dm_n = {kind: decmodel.check_ts(chk, cs, kind, res) for kind, cs in dm_cases.items()}
    chk.cov["traces_validated_against_impl"] += sum(dm_n.values())
    chk.notes["DecisionModel_vs_applyDecisions_ts"] = {"cases_replayed": dm_n, "rule": "TLC-generated (base, decision list, expected "
        "document) in forward order with the actions the web tool's strategy can emit, applied by the TypeScript applyDecisions"}
    # attach TS results
    for ev in events:
        rr_ = res.get(ev["tid"])
        exact = ev.pop("_exact", False)
        if rr_ is None:
            raise tlc.TLCError("no TypeScript result for %s" % ev["tid"])
        if "error" in rr_:
            ev["tsraised"] = {"type": rr_.get("etype"), "msg": rr_["error"]}
        else:
            ev["pts"] = enc_js(rr_["result"])
            if exact:
                ev["exact"] = True
            if "result2" in rr_ and rr_["result2"] != rr_["result"]:
                ev["tsraised"] = {"type": "SecondApplicationDiffers", "msg": "patching twice with the same diff objects gives another result"}
        chk.count((ev["tid"],), nontrivial=True)
    v = common.validate("DiffTrace", common.diff_trace_cfg(), events, batch=300, name="c15")
    chk.add_validation(v, "DiffTrace (TypeScript patch) on %d TLC-generated + %d differ-produced programs" % (nwf, len(events) - nwf))
    byid = {ev["tid"]: ev for ev in events}
    for tid, clauses in v.fails.items():
        for c in clauses:
            if c in DIFF_CLAUSES:
                ev = byid[tid]
                src = tid.split("-")[0]
                if c == "TsAccepts":
                    sig = "ts-patch-rejects:%s:%s" % (src, (ev["tsraised"]["msg"] or "")[:40])
                    desc = "TypeScript patch() raised on a diff the server can send: %s" % ev["tsraised"]
                else:
                    sig = "ts-patch:%s:%s" % (c, src)
                    desc = "TypeScript patch() result differs (%s)" % c
                chk.violation(sig, desc, {"event": tid, "a": _safe(ev["a"]), "d": ev["d"] if len(json.dumps(ev["d"])) < 4000 else "..."})
    # decisions
    lines = []
    idx = {}
    for tid, names in mevents.meta:
        ev = mevents.event(tid)
        rr_ = res.get("m-" + tid)
        if rr_ is None or not ev["runs"] or "raised" in ev["runs"][0]:
            continue
        run_ = ev["runs"][0]
        if "error" in rr_:
            run_["tsraised"] = {"type": rr_.get("etype"), "msg": rr_["error"]}
        else:
            run_["tsm"] = enc_js(rr_["result"])
            run_["mjs"] = mjobs.get(tid)
            if "result2" in rr_ and rr_["result2"] != rr_["result"]:
                run_["tsraised"] = {"type": "SecondApplicationDiffers", "msg": "applying the same decision objects twice gives another result"}
        idx[(tid, run_["name"])] = (ev, run_)
        lines.append(json.dumps(ev, separators=(",", ":")))
        chk.count((info_of[tid].get("abstract"),), nontrivial=True)
    mv = common.validate("MergeTrace", mergedrv.MERGE_CFG, lines, batch=40, name="c15m")
    chk.add_validation(mv, "MergeTrace (TypeScript applyDecisions) on %d decision lists" % len(lines))
    for key, clauses in mv.fails.items():
        ev, run_ = idx[key]
        for c in clauses:
            if c == "TsAccepts":
                chk.violation("ts-decisions-rejects:%s" % (run_["tsraised"]["msg"] or "")[:50],
                              "TypeScript applyDecisions rejected a decision list the server emits: %s" % run_["tsraised"],
                              {"triple": ev["tid"], "script": info_of[ev["tid"]].get("script")})
            elif c == "TsApplied":
                chk.violation("ts-decisions:result-differs", "TypeScript applyDecisions gives another merged notebook than Python's apply_decisions",
                              {"triple": ev["tid"], "script": info_of[ev["tid"]].get("script")})
    chk.notes["program_counts"] = {"tlc_wellformed_doc_diff": nwf, "differ_produced_diffs": len(events) - nwf,
                                   "decision_lists": len(lines)}
    chk.cov["programs"] = len(events) + len(lines)
    # every disagreement between the two implementations is examined (classified against known findings / reported)
    chk.cov["disagreements_checked"] = sum(1 for cl in v.fails.values() if any(c in DIFF_CLAUSES for c in cl)) + \
        sum(1 for cl in mv.fails.values() if any(c in ("TsApplied", "TsAccepts") for c in cl))
    chk.sample({"patch_program": jobs[0]})
    chk.sample({"decision_program_triple": triples[0][0], "script": triples[0][4].get("script")})
    chk.cov["rule"] = ("programs: (doc, diff) of every TLC-generated well-formed case (sampled to 3000 per universe in quick), random generic "
                       "diffs (half of them strings with all Unicode line separators), notebook diffs of the corpus pairs, and the "
                       "mergetool decision lists of the corpus triples; each run through Node and compared with Python / the spec")
    chk.assumptions += ["Node >= 22.6 (found under ~/.nvm) executes the unmodified .ts sources through harness/ts/loader.mjs (type stripping, "
                        "extension resolution, namespace-import rewriting) with stand-ins for @lumino/coreutils and json-stable-stringify",
                        "numbers are compared the way JavaScript sees them (1.0 and 1 are one value); TsPatchIsSpecPatch only where no float occurs"]
    return chk.finish()


def _has_float(x):
    if isinstance(x, dict):
        return any(_has_float(v) for v in x.values())
    if isinstance(x, list):
        return any(_has_float(v) for v in x)
    return isinstance(x, float)


def _safe(v):
    try:
        return dec(v)
    except Exception:
        return None


if __name__ == "__main__":
    common.main(run)
