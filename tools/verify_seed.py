#!/venv/bin/python
"""Confirm a seeded change delivered by a sub-agent in /tmp/wt/<ID>/_seed and store it under
/verif/seeded/<ID>-<N>/ : demo passes on the clean tree, fails with the patch, and every test of the
pinned stable baseline still passes with the patch.  usage: verify_seed.py C01 1 [out-number]
(WT_ROOT overrides the directory holding the sub-agents' worktrees)"""
import ast, json, os, shutil, subprocess, sys, tempfile
import xml.etree.ElementTree as ET

pid, n = sys.argv[1], sys.argv[2]
outn = sys.argv[3] if len(sys.argv) > 3 else n
wt = "%s/%s" % (os.environ.get("WT_ROOT", "/tmp/wt"), pid)
seed = os.path.join(wt, "_seed")
out = "/verif/seeded/%s-%s" % (pid, outn)


def sh(cmd, **kw):
    return subprocess.run(cmd, shell=True, cwd=wt, stdout=subprocess.PIPE, stderr=subprocess.STDOUT,
                          universal_newlines=True, **kw)


def demo():
    env = dict(os.environ)
    env.pop("NBDIME_VERIF", None)
    p = sh("/venv/bin/python _seed/demo%s.py" % n, timeout=900, env=env)
    return p.returncode, p.stdout[-1500:]


def baseline():
    base = json.load(open("/root/.vp/BASELINE.json"))
    stable = base["stable_pass"]
    if isinstance(stable, str):
        stable = ast.literal_eval(stable)
    stable = set(stable)
    x = tempfile.mktemp(suffix=".xml")
    cmd = base["cmd"].replace("<file>", x).replace("cd /repo", "cd " + wt)
    subprocess.run(cmd, shell=True, stdout=subprocess.DEVNULL, stderr=subprocess.DEVNULL)
    passed = set()
    for tc in ET.parse(x).getroot().iter("testcase"):
        if not any(ch.tag in ("failure", "error", "skipped") for ch in tc):
            passed.add("%s::%s" % (tc.get("classname"), tc.get("name")))
    os.unlink(x)
    return sorted(stable - passed)


res = {"id": "%s-%s" % (pid, outn)}
sh("git checkout -- . && git clean -fdq -e _seed")
rc0, o0 = demo()
res["demo_clean_rc"] = rc0
ap = sh("git apply _seed/patch%s.diff" % n)
res["apply_rc"] = ap.returncode
rc1, o1 = demo()
res["demo_patched_rc"] = rc1
res["demo_patched_tail"] = o1[-600:]
missing = baseline() if ap.returncode == 0 else ["<patch did not apply>"]
res["stable_tests_not_passing_with_patch"] = missing
sh("git checkout -- . && git clean -fdq -e _seed")
ok = rc0 == 0 and ap.returncode == 0 and rc1 != 0 and not missing
res["confirmed"] = ok
if ok:
    os.makedirs(out, exist_ok=True)
    shutil.copy(os.path.join(seed, "patch%s.diff" % n), os.path.join(out, "patch.diff"))
    shutil.copy(os.path.join(seed, "demo%s.py" % n), os.path.join(out, "demo.py"))
    for extra in os.listdir(seed):
        helper = (extra.endswith(".py") and not extra.startswith("demo")) or extra.endswith(".mjs") or extra.endswith(".ipynb")
        if extra.startswith("stub") or helper or os.path.isdir(os.path.join(seed, extra)):
            src = os.path.join(seed, extra)
            dst = os.path.join(out, extra)
            if os.path.isdir(src):
                shutil.copytree(src, dst, dirs_exist_ok=True)
            else:
                shutil.copy(src, dst)
    meta = {}
    try:
        meta = json.load(open(os.path.join(seed, "meta%s.json" % n)))
    except Exception as e:
        meta = {"note": "agent meta unreadable: %s" % e}
    meta["property"] = pid
    meta["confirmed_by_main_session"] = {
        "demo_on_clean_tree_rc": rc0, "demo_with_patch_rc": rc1,
        "baseline_stable_tests_failing_with_patch": 0,
        "ran": ["git apply patch.diff (worktree /tmp/wt/%s)" % pid, "/venv/bin/python _seed/demo%s.py" % n,
                "pinned baseline pytest command in the worktree, compared with BASELINE.json stable_pass"]}
    json.dump(meta, open(os.path.join(out, "meta.json"), "w"), indent=1)
print(json.dumps(res, indent=1))
