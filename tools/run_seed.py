#!/venv/bin/python
"""Apply a confirmed seeded change to /repo, run the given checks (quick tier by default), undo it.
usage: run_seed.py C01-1 [C01 C11 ...] [--tier thorough]   -> prints which checks caught it."""
import json, os, subprocess, sys

seed = sys.argv[1]
args = sys.argv[2:]
tier = "quick"
if "--tier" in args:
    i = args.index("--tier")
    tier = args[i + 1]
    del args[i:i + 2]
checks = args or [seed.split("-")[0]]
d = "/verif/seeded/%s" % seed
assert subprocess.run("git -C /repo status --porcelain --untracked-files=no", shell=True, stdout=subprocess.PIPE).stdout.strip() == b"", "/repo dirty"
ap = subprocess.run("git -C /repo apply %s/patch.diff" % d, shell=True)
res = {}
try:
    if ap.returncode != 0:
        print("PATCH DOES NOT APPLY", seed)
        sys.exit(2)
    for c in checks:
        p = subprocess.run("./check %s --tier %s" % (c, tier), shell=True, cwd="/verif", stdout=subprocess.PIPE,
                           stderr=subprocess.STDOUT, universal_newlines=True)
        viol = [l for l in p.stdout.splitlines() if l.startswith("VIOLATION")]
        res[c] = {"rc": p.returncode, "violations": len(viol)}
        print(seed, c, "rc=%d" % p.returncode, "violations=%d" % len(viol))
        for l in p.stdout.splitlines():
            if l.startswith("VIOLATION") or l.startswith("  ") or "MACHINERY" in l:
                print("   ", l[:300])
finally:
    subprocess.run("git -C /repo checkout -- .", shell=True)
print(json.dumps({seed: res}))
