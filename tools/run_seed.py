#!/venv/bin/python
"""Run checks against a confirmed seeded change WITHOUT touching /repo: a scratch worktree of /repo's
HEAD gets the patch and the checks run with VERIF_REPO pointing at it (evidence goes to a scratch dir).
usage: run_seed.py C01-1 [C01 C11 ...] [--tier thorough]"""
import json, os, shutil, subprocess, sys, tempfile

seed = sys.argv[1]
args = sys.argv[2:]
tier = "quick"
if "--tier" in args:
    i = args.index("--tier")
    tier = args[i + 1]
    del args[i:i + 2]
checks = args or [seed.split("-")[0]]
ROOT = os.path.dirname(os.path.dirname(os.path.abspath(__file__)))     # /verif, or a snapshot copy of it
d = "%s/seeded/%s" % (ROOT, seed)
wt = tempfile.mkdtemp(prefix="seedrun-%s-" % seed)
os.rmdir(wt)
subprocess.run("git -C /repo worktree add --detach %s HEAD -q" % wt, shell=True, check=True)
res = {}
try:
    ap = subprocess.run("git -C %s apply %s/patch.diff" % (wt, d), shell=True)
    if ap.returncode != 0:
        ap = subprocess.run("git -C %s apply --3way %s/patch.diff" % (wt, d), shell=True)
    if ap.returncode != 0:
        print("PATCH DOES NOT APPLY", seed)
        sys.exit(2)
    env = dict(os.environ, VERIF_REPO=wt, VERIF_EVIDENCE_DIR=os.path.join(wt, "_evidence"))
    for c in checks:
        p = subprocess.run("./check %s --tier %s" % (c, tier), shell=True, cwd=ROOT, stdout=subprocess.PIPE,
                           stderr=subprocess.STDOUT, universal_newlines=True, env=env)
        viol = [l for l in p.stdout.splitlines() if l.startswith("VIOLATION")]
        res[c] = {"rc": p.returncode, "violations": len(viol)}
        print(seed, c, "rc=%d" % p.returncode, "violations=%d" % len(viol))
        for l in p.stdout.splitlines():
            if l.startswith("VIOLATION") or l.startswith("  ") or "MACHINERY" in l or "Traceback" in l:
                print("   ", l[:260])
finally:
    subprocess.run("git -C /repo worktree remove --force %s" % wt, shell=True)
print("RESULT " + json.dumps({seed: res}))
