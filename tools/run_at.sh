#!/bin/sh
# usage: tools/run_at.sh <commit> <check> [<check> ...]   - run quick checks against a scratch worktree of /repo at <commit>
# (used to confirm that a check reports a defect on the tree before its "fix:" commit)
C=$1; shift
WT=$(mktemp -d /tmp/runat-XXXXXX); rmdir $WT
git -C /repo worktree add --detach $WT $C -q || exit 2
for k in "$@"; do
  VERIF_REPO=$WT VERIF_EVIDENCE_DIR=$WT/_evidence ./check $k --tier ${TIER:-quick} 2>&1 | grep -v "^WARNING\|Unhandled conflict" | grep "VIOLATION\|KNOWN\|^C[0-9][0-9] tier\|^  \|MACHINERY\|Traceback" | cut -c1-400 | head -${LINES_:-12}
done
git -C /repo worktree remove --force $WT
