#!/venv/bin/python
"""Generate /verif/MANIFEST.json from the table below and validate it against the schema."""
import json
import os
import sys

VERIF = os.path.dirname(os.path.dirname(os.path.abspath(__file__)))

MC = "model_checking"

# id -> (level, technique, level text, level note, design ref)
CHECKS = {
    "C02": (MC,
            "TLC model checking of DiffModel.tla (bounded JSON universe x all canonical well-formed diffs) + "
            "spec->code replay of every TLC-generated (doc, diff, Patch) into nbdime.patch + TLC trace validation "
            "(DiffTrace.tla) of nbdime.diff on the exhaustive universe cross product and random documents + transcriptions "
            "of the list differ (SeqDiffAlgo.tla) and of the line-to-character diff flattening (FlattenDiff.tla) checked by TLC "
            "on bounded universes and compared case by case with nbdime",
            "The documented diff format is an explicit TLA+ specification (DiffFormat: WellFormed, Patch, type-aware Eq). "
            "TLC explores every (document, well-formed diff) of a bounded universe and checks the format's laws; every such "
            "case is replayed into the real patch, and every real diff() result on every pair of the universe plus random "
            "deeper pairs is validated clause by clause (round trip with the spec's independent Patch, nbdime's patch = "
            "spec Patch, empty-only-if-identical). Exhaustive inside the bounds, sampled beyond.",
            "Trusted: harness/encode.py (value encoding), TLC, the reading of docs/source/diffing.rst in spec/DiffFormat.tla. "
            "No proof about unbounded inputs.", "DESIGN.md §5 C02"),
}

CHECKS["C01"] = (MC,
    "TLC model checking of CellAlign.tla (transcription of the multilevel cell alignment, every pair of abstract cell lists; compared with "
    "nbdime's algorithm and its real cell predicates) + TLC enumeration of edit scripts (NotebookEdits.tla) concretised to real notebooks + TLC trace validation "
    "(DiffTrace.tla) of diff_notebooks/patch_notebook and of the nbdiff --out / nbpatch -o file interface",
    "Every pair reachable with <= 2 edit actions from six base templates (TLC-enumerated), random walks and unrelated "
    "pairs are diffed by the real notebook differ; TLC evaluates per event: round trip with the specification's own "
    "Patch (independent of nbdime's patch), nbdime's patch result, empty-iff-identical, and for a rotating subset the "
    "diff/notebook read back from the files nbdiff and nbpatch wrote. The diff is a value: clauses RepeatPatch / "
    "DiffUnchangedByPatch require that applying it a second time gives the same notebook and that applying it leaves it unchanged. "
    "At design level the alignment algorithm of the notebook differ (seq_bruteforce.py, snakes.py) is transcribed into CellAlign.tla: TLC "
    "checks on every pair of abstract cell lists that the snakes are monotone, in bounds, keep every top-level match, align a notebook "
    "with itself cell by cell and yield a diff shape that rebuilds the target; the model's snakes equal nbdime's on every pair.",
    "Trusted: harness/concretize.py (content tables, validated per notebook with nbformat), harness/encode.py, TLC. "
    "Bounded/sampled input space; no proof.", "DESIGN.md §5 C01")

MERGE_NOTE = ("Trusted: harness/concretize.py (inputs validated per notebook), harness/encode.py, TLC, spec/MergeFormat.tla as the "
              "reading of docs/source/merging.rst. Bounded/sampled input and strategy space; no proof.")
CHECKS["C03"] = (MC,
    "TLC-enumerated edit-script triples (NotebookEdits.tla) merged by the real merger under every CLI strategy / mergetool / "
    "each text-merge helper; TLC trace validation (MergeTrace.tla) with clause Completes",
    "Each merge call return is one trace event; a raised exception is an event the specification rejects (Completes), with the "
    "exception type and innermost nbdime frame as the identity of the failure. Triples come from TLC's exhaustive enumeration of "
    "one edit per side over six base templates plus random walks; a core subset runs all 280 CLI strategy combinations + "
    "mergetool; git merge-file / diff3 / built-in are selected through a private PATH. Sweep: EVERY TLC-enumerated triple whose "
    "two edits touch the same or adjacent positions is merged under three strategies and the ones that raise are forwarded to the "
    "validation; per-output edits of one cell come from OutputEdits.tla.", MERGE_NOTE, "DESIGN.md §5 C03")
CHECKS["C04"] = (MC,
    "same events as C03; TLC clause ValidNb on the logged verdict of the JSON schema of the declared minor (no normalisation); "
    "nbmerge --out files validated too",
    "Every merged notebook of the C03 space (bases of minors 0/2/4/5, conflicts of every kind the edit actions produce) is "
    "validated against the schema of the minor it declares, strictly (nbformat's validate() would silently add missing ids). "
    "A subset goes through nbmerge --out and the file on disk is validated. Clause UniqueCellIds: a notebook that declares 4.5 "
    "has no two cells with one id (the format's rule the JSON schema cannot state). Sweep as in C03 with the screen 'invalid'.", MERGE_NOTE, "DESIGN.md §5 C04")
CHECKS["C05"] = (MC,
    "TLC model checking of MergeAlgo.tla (TLA+ transcription of nbdime's list differ and list/object merge: the laws hold for every "
    "triple of the universe; its decisions are compared with nbdime's, drift 0) + "
    "TLC trace validation (MergeTrace.tla: LawHolds, Symmetric with the carve-out SamePositionInsert computed by the spec) of "
    "notebook merges for (b,b,b),(b,X,b),(b,b,X),(b,X,X) and both role orders; exhaustive triples of the TLC-enumerated generic "
    "JSON universe (DiffModel.tla) through decide_merge/apply_decisions",
    "The four laws are clauses of the merge contract evaluated by TLC on every event; X ranges over the TLC-enumerated edit "
    "scripts, strategies are sampled from all 281; symmetry events carry both role orders; generic JSON is exhaustive over "
    "all triples of short lists/objects/strings of the bounded universe.", MERGE_NOTE, "DESIGN.md §5 C05")
CHECKS["C09"] = (MC,
    "TLC model checking of DecisionModel.tla (every way of cutting a well-formed group diff of a bounded sub-document into decisions: "
    "SplitInvariance, Ordered, SchemaAll; every case replayed into nbdime's apply_decisions) + "
    "TLC trace validation (MergeTrace.tla) with the specification's own ApplyDecisions (MergeFormat.tla): AppliesToMerged, "
    "AllLocalIsLocal, AllRemoteIsRemote, OrderedOK, SamePathContiguous, DecisionSchemaOK (+ published schema via jsonschema), "
    "DecisionPlainJSON",
    "The decision format has an explicit TLA+ semantics independent of nbdime's applier. For every merge event TLC re-applies "
    "the decisions to base and compares with the merged notebook; under 'mergetool' it relabels every decision to local / "
    "remote and compares with that notebook; ordering, contiguity, schema and plain-JSON clauses are evaluated on every list. "
    "At design level DecisionModel.tla cuts every well-formed diff of a bounded universe (strings of lines, lists of containers, objects) "
    "into decisions in every style the format allows (one entry per decision from either side, either / custom / local_then_remote, "
    "line- and item-level paths, clear / remove / take_max / clear_all / base) and TLC checks that the reference applier gives base "
    "patched with the uncut diff; nbdime's applier gives the same document on every case (spec -> code).",
    MERGE_NOTE, "DESIGN.md §5 C09")

CHECKS["C06"] = (MC,
    "TLC enumeration of Ownership.tla (owner/action per cell, non-adjacent insertion, expected merge by construction) replayed into the "
    "real merger; TLC trace validation (MergeTrace.tla clause DisjointExact); generic JSON disjoint keys / separated positions",
    "The specification generates every case of 'the two sides change different cells' for N=2 (exhaustive), N=3 (exhaustive in "
    "thorough) and N=4 (sampled) together with the expected result; each case is concretised and merged under the default strategy and "
    "mergetool, and TLC checks no-conflict and merged = expected. Generic JSON cases are constructed exhaustively over a small family.",
    MERGE_NOTE, "DESIGN.md §5 C06")
CHECKS["C07"] = (MC,
    "TLC model checking of the transcribed line based string merge (MergeAlgo.tla, kind strings) and of the built-in conflict renderer "
    "(MergeRender.tla: Survive, Provenance, MarkersInOrder on every pair of texts; equal to nbdime's output) + "
    "TLC trace validation (MergeTrace.tla: LinesSurvive, LinesProvenance, SameLineFlagged over line sets computed by the spec) of default-"
    "strategy merges under git merge-file / diff3 / built-in",
    "For every default-strategy merge of the C03 triples under each text-merge helper TLC computes the source line sets of base, local, "
    "remote and merged and checks survival and provenance (markers allowed); a dedicated family where both sides rewrite the same "
    "line(s) of an id-aligned cell must be flagged as conflict with both variants present.", MERGE_NOTE, "DESIGN.md §5 C07")
CHECKS["C10"] = (MC,
    "TLC model checking of MergeAlgo.tla with strategies (transcription of tryresolve / resolve_conflicted_decisions_* / "
    "resolve_strategy_generic: UseSideResolved, UseSideEquiv, StrategyInert on every triple x strategy configuration; decisions compared "
    "with nbdime's under the same Strategies) + TLC trace validation (MergeTrace.tla: UseSideNoConflict, UseSideEquivalence via the specification's ResolveAll + ApplyDecisions, "
    "LinesProvenance) of use-base/local/remote merges against the open-conflict (mergetool) run of the same triple",
    "Each triple is merged with conflicts left open and with use-<side> given as merge strategy, as input+output strategy, and as all "
    "three, transients ignored or not; TLC resolves every conflicted decision of the open run to that side with the spec's applier and "
    "compares with the strategy's merged notebook. At design level the generic merger's strategy handling is transcribed into MergeAlgo.tla "
    "and TLC checks the same equivalence for every triple of short lists / strings / objects under every strategy configuration; the "
    "model's cases are also merged by the real generic merger and validated the same way.", MERGE_NOTE, "DESIGN.md §5 C10")
CHECKS["C11"] = (MC,
    "TLC trace validation: DiffTrace.tla clauses SchemaOK/PlainJSON/WellFormed on every diff of the C01/C02 input spaces, MergeTrace.tla "
    "clause EmbeddedWellFormed on every diff embedded in merge decisions; DiffModel.tla checks WellFormed/Patch consistency",
    "WellFormed(base, diff) is a TLA+ predicate transcribing exactly the rules the property lists; it is evaluated on every diff the "
    "generic and notebook differs return (exhaustive universe cross product + random + notebook pairs) and on the local/remote/custom "
    "diffs of every decision relative to the sub-document addressed by the decision's path.", MERGE_NOTE, "DESIGN.md §5 C11")

CHECKS["C08"] = (MC,
    "TLC model checking of MergeCmd.tla (every step of nbmerge / git-nbmergedriver, Raise and Kill faults at every step boundary) + "
    "replay of every terminal scenario as a real subprocess with the fault injected (harness/faultdriver.py)",
    "The command is an explicit state machine; TLC checks exit-zero-iff-no-conflict, finished-leaves-complete-result, faults-never-succeed "
    "and early-fault-leaves-output-untouched on the whole graph and emits every terminal state. Each scenario (mode x input shape x "
    "conflict x fault step/kind/write index) is executed for real; the observed (exit class, output class) must be allowed by the "
    "model, and a finished run's output must equal the library merge (type-aware JSON comparison).",
    "Trusted: fault injection by wrapping the module-level names main_merge uses; output classification by byte comparison with the "
    "fault-free run. Faults inside C code / a single write(2) are out of reach.", "DESIGN.md §5 C08")
CHECKS["C12"] = (MC,
    "TLC enumeration of all histories of Process.tla (ignore-configuration operations and diff/merge calls) replayed in pristine "
    "interpreters; state projection compared with the model after every step; every result compared with a pristine interpreter "
    "in the same model state",
    "The only state a diff may depend on is the ignore table; TLC enumerates every history up to length 3 (quick) / 4 (thorough) and "
    "checks purity/reset properties on the model; each history is replayed in a fork of a pristine parent, the real differ table is "
    "projected onto the model state after each step, and each call's result must equal that of a pristine interpreter configured "
    "canonically into the same state.",
    "Trusted: fork of an import-only parent == fresh interpreter; projection reads closure cells of the ignore wrappers.", "DESIGN.md §5 C12")
CHECKS["C18"] = (MC,
    "TLC model checking of GitConfig.tla (commands as total functions on the per-scope configuration; Idempotent, ForeignUntouched, "
    "EnableAddsOnlyOwn, DisableUnroutes) + replay of TLC-simulated behaviours against real git with state projection after every step",
    "All initial configurations of the property's quantifier and all command sequences up to the bound are model checked; simulated "
    "behaviours are executed through the real entry points in scratch repositories with a private HOME, the files git reads are "
    "projected back to the model state after every command, each command is run twice, and git check-attr confirms routing.",
    "Trusted: projection via git config --file; --system scope not covered; jinja2/jupyter_server stubs for importing the tools.",
    "DESIGN.md §5 C18")

CHECKS["C17"] = (MC,
    "TLC enumeration of repository histories (GitRefs.tla) replayed with real git (model trees compared with git's); TLC trace "
    "validation (GitRefsTrace.tla: ExaminesExactlyReported, CwdPreservedAtEnd, OutputWhereRun) of every changed_notebooks iteration against git's own report",
    "TLC enumerates every history of edit/rm/stage/mv/commit actions up to the bound; each is replayed in a scratch repository and the "
    "model's working tree / index / HEAD must equal git's. For every ref pair kind x cwd x path filter one trace event records git's raw "
    "report (rename detection on), the pairs the generator yielded (content ids) and the cwd after each yield; TLC decides multiset "
    "equality with the notebook entries of the report and cwd preservation; the nbdiff command run from a sub-directory with a relative "
    "--out must write where it was run.",
    "Trusted: git's own report as reference; content ids embedded in the notebooks; rename heuristics are git's.", "DESIGN.md §5 C17")

CHECKS["C19"] = (MC,
    "TLC enumeration of ConfigRes.tla (documented resolution rule per entry point: all assignments of an option to <= 2/3 "
    "(directory, section) sites x flag) materialised as real config files and evaluated with build_config and the entry points' "
    "real argument parsers",
    "The documented rule is an explicit TLA+ definition (Winner / PathWinner) over the section lists of docs/source/config.rst; TLC "
    "enumerates every assignment within the bound for each of the 11 entry points and checks the rule's defining invariants. Each case "
    "is written to nbdime_config.json files in a private cwd, JUPYTER_CONFIG_PATH entry and JUPYTER_CONFIG_DIR for six representative "
    "options (incl. path-wise merged Ignore); build_config and the real parser (with and without the flag) must return the winner's value; "
    "six entry points are also parsed the other way they can be started (through the `nbdime <command>` dispatcher, the server as a module).",
    "Trusted: the mapping of abstract sites to files/values; jupyter_core's order of the non-cwd directories; parser capture for the git "
    "tools.", "DESIGN.md §5 C19")

CHECKS["C20"] = (MC,
    "TLC enumeration of request sequences of WebApi.tla per start-up mode, replayed against the real Tornado application (status class, "
    "digests of the whole server directory, shutdown) + history independence of answers + TLC validation (DiffTrace.tla) of /api/diff "
    "answers + comparison of /api/merge answers with the library",
    "The API is a state machine over (disk, running) per start-up mode; TLC checks confinement, store gating, close gating, errors-change-"
    "nothing and history independence on the model and enumerates all sequences of 2 (and 3) requests over 19 request kinds (valid, "
    "malformed JSON, missing keys, non-notebook / missing files, extra path fields in the store body, a notebook that cannot be encoded, "
    "unknown routes incl. one that differs from an API route in one character under a base URL with a regular expression metacharacter). Each sequence runs "
    "against the real handlers; after every request the status class and every file of the server directory are compared with the model.",
    "Trusted: stub jupyter_server/jinja2 (no auth/XSRF); IOLoop.stop interception; content ids by byte/JSON comparison.", "DESIGN.md §5 C20")

CHECKS["C14"] = (MC,
    "TLC enumeration of IgnoreMatrix.tla (ignored x differing x channel with derived expectations) executed through the real channels "
    "(flags via the nbdiff parser, Ignore mappings / key lists / split over sections and directories / ignorable booleans via "
    "ConfigBackedParser) in pristine interpreters; TLC trace validation (DiffTrace.tla: NoIgnoredPath, masked RoundTrip, IgnoredOnlyEmpty "
    "with NbPaths.tla categories and Mask)",
    "The six categories are a TLA+ path vocabulary (NbPaths) with a Mask operator; the case matrix is enumerated by TLC; every case "
    "builds a pair differing in exactly the chosen categories at every level where the category exists and diffs it under the real "
    "configuration channel; TLC checks that no diff entry lies on an ignored path, that the specification's Patch reproduces the target "
    "in every non-ignored part, and that differences confined to ignored non-source categories give an empty diff.",
    "Trusted: harness/c14.vary changes exactly the stated categories; NbPaths transcribes the documented meaning of the six options.",
    "DESIGN.md §5 C14")

CHECKS["C16"] = ("exploration",
    "TLC enumeration of RenderMatrix.tla (ignore subsets x colour x colour-words x renderer x input) applied to the real renderers; TLC "
    "trace validation (RenderTrace.tla: Completes, EmptyDiffPrintsNothing, ShownDiffPrintsSomething via NbPaths categories, NoAnsiWithoutColor)",
    "The contract RenderOK is a TLA+ predicate over (kind, configuration, diff, output); the configuration matrix is enumerated by TLC and "
    "every rendering is one validated trace event. Assurance is breadth over configurations and inputs (no state machine behind it), hence "
    "exploration level.",
    "Trusted: PATH-based renderer selection; the path categories of NbPaths for 'touches a non-ignored category'.", "DESIGN.md §5 C16")

CHECKS["C13"] = ("exploration",
    "TLC trace validation (FrameTrace.tla: ArgsUnchanged, ArgsUnchangedAfterResultMutation, Recomputable, RecomputedSame) of every public library call "
    "on inputs of the C01-C03 spaces and on the TLC-generated decision lists of DecisionModel.tla (apply_decisions), with arguments "
    "re-encoded after the call and after scribbling on every container of the result",
    "The frame condition UNCHANGED args is a TLA+ clause evaluated by TLC on the encoded arguments before / after each call and after "
    "the returned result has been mutated everywhere; there is no state space to explore beyond the calls themselves, so the level is "
    "exploration (breadth over functions x inputs x strategies).",
    "Trusted: json round trip + harness/encode.py as 'serialises to the same JSON'; scribble reaches every dict/list of the result.",
    "DESIGN.md §5 C13")

CHECKS["C15"] = ("translation_validation",
    "execution of the real TypeScript patch / applyDecisions (Node 22 type-stripping loader) on every TLC-generated well-formed "
    "(doc, diff) of DiffModel.tla, on the TLC-generated decision lists of DecisionModel.tla (model checked: SplitInvariance) and on diffs / mergetool decision lists the Python side produces; TLC trace validation "
    "(DiffTrace.tla TsPatchIsPyPatch / TsPatchIsSpecPatch / TsAccepts, MergeTrace.tla TsApplied / TsAccepts)",
    "Each (base, diff) or (base, decisions) pair is one program run through both implementations (and through the specification's "
    "Patch for the TLC-generated ones); TLC compares the resulting documents. Programs include strings with every separator of "
    "Python's splitlines and format-version conflicts (take_max); each program is applied twice on the TypeScript side to catch "
    "in-place mutation of the diff objects.",
    "Trusted: harness/ts/loader.mjs + two package stand-ins; JavaScript's number model (1.0 = 1) is applied to both sides before comparing. "
    "No tsc: the sources are type-stripped, not type-checked.", "DESIGN.md §5 C15")

NOT_YET = {}

PROPS = [json.loads(l)["id"] for l in open(os.path.join(VERIF, "properties.jsonl"))]


def build(not_applicable):
    checks = []
    for pid in PROPS:
        if pid not in CHECKS:
            continue
        level, tech, text, note, ref = CHECKS[pid]
        checks.append({
            "property_id": pid,
            "quick_cmd": "./check %s --tier quick" % pid,
            "thorough_cmd": "./check %s --tier thorough" % pid,
            "evidence_file": "/verif/evidence/%s.json" % pid,
            "replay_cmd_template": "./check %s --replay {path}" % pid,
            "engine": "tlc+conformance",
            "level_claimed": {"category": level, "text": text, "design_ref": ref},
            "level_note": note,
            "technique": tech,
        })
    na = [{"property_id": pid, "reason": not_applicable.get(pid, "check not built yet (work in progress this round)")}
          for pid in PROPS if pid not in CHECKS]
    return {
        "version": 1,
        "setup_cmd": "./tools/setup.sh",
        "hooks": {
            "guard": "NBDIME_VERIF",
            "enable": "checks export NBDIME_VERIF=1 and import nbdime from /repo's working tree (PYTHONPATH=/repo); "
                      "no build step",
            "baseline_off_cmd": "/venv/bin/python /verif/tools/baseline.py",
            "source_commits": [],
            "add_only": True,
        },
        "engines": [
            {"name": "tlc+conformance", "path": "/verif/check",
             "serves_properties": sorted(CHECKS),
             "kind_free_text": "explicit TLA+ specifications under /verif/spec checked with TLC; conformance in both "
                               "directions by /verif/harness (TLC-generated cases replayed into nbdime; NDJSON traces "
                               "of nbdime executions validated by TLC trace specifications)"}],
        "checks": checks,
        "notes": "See DESIGN.md. known_findings.json lists recorded and fixed defects.",
        "not_applicable": na,
    }


if __name__ == "__main__":
    m = build(NOT_YET)
    with open(os.path.join(VERIF, "MANIFEST.json"), "w") as f:
        json.dump(m, f, indent=1)
    try:
        import jsonschema
        jsonschema.validate(m, json.load(open("/root/.vp/MANIFEST.schema.json")))
        print("MANIFEST.json valid: %d checks, %d not claimed" % (len(m["checks"]), len(m["not_applicable"])))
    except ImportError:
        print("jsonschema missing; not validated")
