#!/venv/bin/python
"""Run the repository's pinned baseline with the hook guard OFF and compare with
/root/.vp/BASELINE.json: every test of the stable-pass set must still pass."""
import ast, json, os, subprocess, sys, tempfile
import xml.etree.ElementTree as ET

base = json.load(open("/root/.vp/BASELINE.json"))
stable = base["stable_pass"]
if isinstance(stable, str):
    stable = ast.literal_eval(stable)
stable = set(stable)
out = tempfile.mktemp(suffix=".junit.xml")
env = dict(os.environ)
env.pop("NBDIME_VERIF", None)
cmd = base["cmd"].replace("<file>", out)
p = subprocess.run(cmd, shell=True, env=env, stdout=subprocess.PIPE, stderr=subprocess.STDOUT, universal_newlines=True)
passed = set()
for tc in ET.parse(out).getroot().iter("testcase"):
    if not any(ch.tag in ("failure", "error", "skipped") for ch in tc):
        passed.add("%s::%s" % (tc.get("classname"), tc.get("name")))
os.unlink(out)
missing = sorted(stable - passed)
print("stable baseline: %d, passed now: %d, stable tests not passing: %d" % (len(stable), len(passed), len(missing)))
for m in missing[:30]:
    print("  NOT PASSING:", m)
sys.exit(1 if missing else 0)
