#!/venv/bin/python
"""Run every confirmed seeded change against the check(s) of its property and write seeded/RESULTS.md.
usage: seed_matrix.py [--tier quick|thorough] [seed ...]"""
import json, os, re, subprocess, sys, time

args = [a for a in sys.argv[1:] if a != "--force"]
tier = "quick"
if "--tier" in args:
    i = args.index("--tier"); tier = args[i + 1]; del args[i:i + 2]
seeds = args or sorted(d for d in os.listdir("/verif/seeded") if re.match(r"C\d+-\d+$", d))
EXTRA = {"C04-2": ["C09"], "C07-1": ["C09"], "C03-1": ["C09"], "C11-2": ["C01"], "C06-4": ["C12"], "C08-3": ["C07"], "C01-3": ["C13"], "C02-4": ["C13"], "C12-4": ["C20"]}
resfile = "/verif/seeded/results-%s.json" % tier
results = json.load(open(resfile)) if os.path.exists(resfile) else {}
force = "--force" in sys.argv
for s in seeds:
    if s in results and not force and not args:
        continue
    checks = [s.split("-")[0]] + EXTRA.get(s, [])
    t0 = time.time()
    p = subprocess.run(["/venv/bin/python", "/verif/tools/run_seed.py", s] + checks + ["--tier", tier],
                       stdout=subprocess.PIPE, stderr=subprocess.STDOUT, universal_newlines=True)
    m = re.search(r"^RESULT (.*)$", p.stdout, re.M)
    if m:
        r = json.loads(m.group(1))[s]
    else:
        r = {"error": p.stdout[-300:]}
    results[s] = {"checks": r, "wall_s": round(time.time() - t0)}
    json.dump(results, open(resfile, "w"), indent=1, sort_keys=True)
    print(s, r, flush=True)
# table
rows = []
for s in sorted(results):
    meta = {}
    try:
        meta = json.load(open("/verif/seeded/%s/meta.json" % s))
    except Exception:
        pass
    r = results[s]["checks"]
    caught = [c for c, v in r.items() if isinstance(v, dict) and v.get("rc") == 1]
    broken = [c for c, v in r.items() if isinstance(v, dict) and v.get("rc") not in (0, 1)]
    rows.append("| %s | %s | %s | %s |" % (s, (meta.get("summary") or "")[:150].replace("|", "/").replace("\n", " "),
                                           ", ".join(caught) if caught else ("machinery problem: " + ", ".join(broken) if broken else "**missed**"),
                                           (meta.get("needs") or "")[:170].replace("|", "/").replace("\n", " ")))
with open("/verif/seeded/RESULTS-%s.md" % tier, "w") as f:
    f.write("# Seeded changes vs. checks (%s tier, VERIF_SEED=%s)\n\n" % (tier, os.environ.get("VERIF_SEED", "0")))
    f.write("| seed | what the change does | caught by | needs |\n|---|---|---|---|\n")
    f.write("\n".join(rows) + "\n")
print("caught %d of %d" % (sum(1 for r in rows if "**missed**" not in r and "machinery" not in r), len(rows)))
