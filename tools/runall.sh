#!/bin/sh
# run every check of MANIFEST.json (tier $1, default quick) on the current tree; one summary line per check
cd "$(dirname "$0")/.." || exit 2
TIER="${1:-quick}"
for id in C01 C02 C03 C04 C05 C06 C07 C08 C09 C10 C11 C12 C13 C14 C15 C16 C17 C18 C19 C20; do
  start=$(date +%s)
  out=$(./check $id --tier $TIER 2>&1); rc=$?
  end=$(date +%s)
  echo "$id rc=$rc $((end-start))s $(echo "$out" | grep -c '^VIOLATION') violation(s) $(echo "$out" | grep -c '^KNOWN-FINDING') known"
  echo "$out" | grep -E "^VIOLATION|^  |MACHINERY|Traceback" | cut -c1-260 | head -12
done
