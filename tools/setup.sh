#!/bin/sh
# Offline set-up: nothing to compile. Parse every specification module with SANY and
# make sure the interpreters/tools the checks need are present.
cd "$(dirname "$0")/.." || exit 1
fail=0
for f in spec/*.tla; do
  out=$(cd spec && tla-sany "$(basename "$f")" 2>&1)
  if echo "$out" | grep -qE "Semantic errors|Parse Error|Fatal errors|Could not"; then
    echo "SANY FAILED: $f"; echo "$out" | tail -20; fail=1
  fi
done
/venv/bin/python -c "import nbformat, jsonschema, tornado" || fail=1
PYTHONPATH=/repo /venv/bin/python -c "import nbdime" || fail=1
mkdir -p evidence replays
[ $fail = 0 ] && echo "setup ok"
exit $fail
